#!/bin/bash
# runs every seeded defect against the check of the property it breaks; writes /verif/seeded/RESULTS_<tier>.tsv
TIER=${1:-quick}
OUT=/verif/seeded/RESULTS_$TIER.tsv
: > $OUT
for d in /verif/seeded/C*-*m*/; do
  SID=$(basename $d); CID=${SID%%-*}
  if ! ls /verif/checks | grep -qi "^$(echo $CID | tr 'A-Z' 'a-z')_"; then echo -e "$SID\t$CID\tno-check" >> $OUT; continue; fi
  R=$(timeout 1500 /verif/bin/try_seed.sh $SID $CID $TIER 2>&1 | tail -1)
  RC=$(echo "$R" | sed -n 's/.*exit=\([0-9]*\).*/\1/p')
  KEY=$(echo "$R" | sed -n 's/.*key=\([^ ]*\).*/\1/p' | cut -c1-80)
  echo -e "$SID\t$CID\texit=$RC\t$KEY" >> $OUT
  echo "$SID exit=$RC $KEY"
done

#!/bin/sh
# Idempotent, offline: build /verif/.venv on /venv's interpreter, exposing /venv's
# site-packages (numpy, scipy, pandas, networkx, mbi as editable install) plus
# z3-solver and crosshair-tool from the offline wheelhouse.
set -e
V=/verif/.venv
if [ -x "$V/bin/python" ] && "$V/bin/python" -c 'import z3, crosshair, numpy, scipy, networkx' 2>/dev/null; then
  exit 0
fi
(
  flock 9
  if [ -x "$V/bin/python" ] && "$V/bin/python" -c 'import z3, crosshair, numpy, scipy, networkx' 2>/dev/null; then
    exit 0
  fi
  rm -rf "$V"
  /venv/bin/python -m venv "$V"
  SP=$("$V/bin/python" -c 'import sysconfig; print(sysconfig.get_paths()["purelib"])')
  printf '%s\n' "import site; site.addsitedir('/venv/lib/python3.12/site-packages')" > "$SP/zz_venv_overlay.pth"
  PIP_NO_INDEX=1 "$V/bin/python" -m pip install -q --no-index --find-links /opt/veriftools/wheels z3-solver crosshair-tool >/dev/null
  "$V/bin/python" -c 'import z3, crosshair, numpy, scipy, networkx; print("env ok", z3.get_version_string())'
) 9>/verif/.venv.lock

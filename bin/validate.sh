#!/bin/sh
# validates MANIFEST.json and every evidence file against the task schemas (tooling venv has jsonschema)
python3-vt - <<'PY'
import json,jsonschema,glob,sys
jsonschema.validate(json.load(open('/verif/MANIFEST.json')),json.load(open('/root/.vp/MANIFEST.schema.json')))
es=json.load(open('/root/.vp/EVIDENCE.schema.json'))
for f in sorted(glob.glob('/verif/evidence/*.json')):
    jsonschema.validate(json.load(open(f)),es)
    print('ok',f)
m=json.load(open('/verif/MANIFEST.json'))
ids={c['property_id'] for c in m['checks']}|{c['property_id'] for c in m.get('not_applicable',[])}
print('manifest valid; properties covered:',len(ids))
PY

#!/bin/bash
# usage: try_seed.sh <seed-id> <check-id> [tier]   -- run a check against /repo HEAD + seeded patch in a scratch worktree
SID=$1; CID=$2; TIER=${3:-quick}
WT=/tmp/mut_${SID}_$$
git -C /repo worktree add -q --detach $WT HEAD || exit 2
if ! git -C $WT apply /verif/seeded/$SID/patch.diff; then echo "$SID: patch does not apply"; git -C /repo worktree remove --force $WT; exit 2; fi
cd /verif
mkdir -p /tmp/mut_evidence
cp /verif/evidence/$CID.json /tmp/mut_evidence/.keep_${SID}_$CID.json 2>/dev/null
VERIF_REPO=$WT ./bin/check $CID --tier $TIER > /tmp/mut_${SID}_${CID}.log 2>&1; RC=$?
cp /verif/evidence/$CID.json /tmp/mut_evidence/${SID}_$CID.json 2>/dev/null
cp /tmp/mut_evidence/.keep_${SID}_$CID.json /verif/evidence/$CID.json 2>/dev/null   # evidence committed under /verif is about /repo itself
git -C /repo worktree remove --force $WT
echo "$SID vs $CID ($TIER): exit=$RC  $(grep -c '^VIOLATION' /tmp/mut_${SID}_${CID}.log) violation lines; $(grep -m1 '^VIOLATION' -A1 /tmp/mut_${SID}_${CID}.log | tail -1 | cut -c1-200)"
exit $RC

#!/bin/bash
# usage: verify_seed.sh <worktree> <m-dir-name> <seed-id>
# Confirms (a) suite still 31 pass with patch, (b) demo fails with patch, (c) demo passes without; then stores under /verif/seeded/<seed-id>/
set -u
WT=$1; M=$2; SID=$3
OUT=$WT/out/$M
cd $WT || exit 2
git checkout -q -- src mechanisms test 2>/dev/null
export PYTHONPATH=$WT/src:$WT
if ! git apply --check $OUT/patch.diff; then echo "PATCH DOES NOT APPLY"; exit 2; fi
/venv/bin/python $OUT/demo.py > /tmp/vs_$SID.c.log 2>&1; C=$?
git apply $OUT/patch.diff
/venv/bin/python -m pytest -q -p no:cacheprovider --timeout=900 --continue-on-collection-errors test > /tmp/vs_$SID.a.log 2>&1
A=$(tail -1 /tmp/vs_$SID.a.log)
/venv/bin/python $OUT/demo.py > /tmp/vs_$SID.b.log 2>&1; B=$?
git apply -R $OUT/patch.diff
git checkout -q -- src mechanisms test
echo "$SID: suite-with-patch=[$A] demo-with-patch-exit=$B demo-pristine-exit=$C"
case "$A" in *"31 passed"*) ;; *) echo "REJECT (suite)"; exit 1;; esac
[ "$B" -ne 0 ] && [ "$C" -eq 0 ] || { echo "REJECT (demo)"; exit 1; }
D=/verif/seeded/$SID
mkdir -p $D
cp $OUT/patch.diff $OUT/demo.py $D/
python3 - "$OUT/meta.json" "$D/meta.json" "$SID" "$A" "$B" "$C" <<'PY'
import json,sys
src,dst,sid,a,b,c=sys.argv[1:7]
try: m=json.load(open(src))
except Exception as e: m={"summary":"(agent meta unreadable: %s)"%e}
m["seed_id"]=sid
m["confirmed_by_me"]={"suite_with_patch":a,"demo_exit_with_patch":int(b),"demo_exit_pristine":int(c),
  "how":"bin/verify_seed.sh in a scratch worktree of /repo (git apply; pytest test; demo.py; git apply -R; demo.py)"}
json.dump(m,open(dst,"w"),indent=1)
PY
echo "KEPT $D"

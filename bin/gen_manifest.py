#!/usr/bin/env python3
"""regenerates /verif/MANIFEST.json from the table below (kept next to the checks so it cannot drift)"""
import glob
import json
import os

V = "/verif"
BUILT = {os.path.basename(p)[:3].upper() for p in glob.glob(V + "/checks/c[0-9][0-9]_*.py")}

COMMON_NOTE = ("Real-number semantics (exact exp/log; float rounding, overflow and scipy's stabilisation are outside the claim); numpy object-array "
               "dispatch, z3 and networkx are trusted; shapes/structures/schedules are enumerated configuration while every numeric value is a "
               "solver variable; shims and assumptions are listed in the evidence file of each run.")

CHECKS = {
    "C01": ("Bounded symbolic model checking of the real GraphicalModel.__init__/belief_propagation: all potential entries (finite or -inf by enumerated "
            "pattern), the total and one additive constant per clique are solver variables; structures (3-5 attributes, cyclic/disconnected/nested/"
            "duplicated/permuted), every elimination order and every linear extension of the message order are enumerated. Each marginal cell is an "
            "NRA identity against the brute-force joint, decided by z3; counterexamples are replayed on the unshimmed code.",
            "SMT (z3 NRA) over symbolic execution of the real code on log-space z3-term scalars", "DESIGN.md §2 C01"),
    "C02": ("Same engine on project (cached and variable-elimination branches), calculate_many_marginals, krondot (symbolic query matrices) and "
            "datavector: every ordered attribute tuple x cache state; each answer cell is an NRA identity against the explicit joint in the requested order.",
            "SMT (z3 NRA) over symbolic execution of the real code on z3-term scalars", "DESIGN.md §2 C02"),
    "C14": ("Bounded symbolic model checking of the real Factor/CliqueVector code: all values symbolic (z3 reals / log-space values incl. -inf lanes), "
            "attribute tuples enumerated over every ordered subset of a 3-4 attribute universe; each result cell is an NRA identity against a "
            "name-indexed point-wise oracle, discharged by z3; counterexamples are replayed on the unshimmed code.",
            "SMT (z3 NRA) over symbolic execution of the real numpy code on z3-term scalars", "DESIGN.md §2 C14"),
}
LEVELS = {}
NOTES = {}

NA = {
    "C03": "limit statement ('given enough iterations ... within tolerance') about thousands of float iterations through exp; no bounded unrolling or inductive invariant implies optimality (DESIGN §2 C03)",
    "C12": "finite combinatorial structure decided by four networkx calls; no numeric value to make symbolic, the honest technique is exhaustive enumeration which this study excludes; indirectly exercised by C01 (DESIGN §2 C12)",
    "C17": "fixed point of an iteration run to convergence, characterised as the optimum of a convex programme with fractional-power updates; not a bounded SMT query (DESIGN §2 C17)",
}


def main():
    extra = os.path.join(V, "bin", "manifest_extra.json")
    if os.path.exists(extra):
        e = json.load(open(extra))
        for k, v in e.get("checks", {}).items():
            CHECKS[k] = tuple(v)
        LEVELS.update(e.get("levels", {}))
        NOTES.update(e.get("notes", {}))
        NA.update(e.get("na", {}))
    checks = []
    for pid in sorted(CHECKS):
        if pid not in BUILT:
            continue
        text, tech, ref = CHECKS[pid]
        checks.append({
            "property_id": pid,
            "quick_cmd": "./bin/check %s --tier quick" % pid,
            "thorough_cmd": "./bin/check %s --tier thorough" % pid,
            "evidence_file": "/verif/evidence/%s.json" % pid,
            "replay_cmd_template": "./bin/check %s --replay {path}" % pid,
            "engine": "symx",
            "level_claimed": {"category": LEVELS.get(pid, "model_checking"), "text": text, "design_ref": ref},
            "level_note": NOTES.get(pid, COMMON_NOTE),
            "technique": tech,
        })
    claimed = {c["property_id"] for c in checks}
    na = [{"property_id": p, "reason": r} for p, r in sorted(NA.items()) if p not in claimed]
    for i in range(1, 21):
        p = "C%02d" % i
        if p not in claimed and p not in NA:
            na.append({"property_id": p, "reason": "check not built yet (planned, see DESIGN.md §2)"})
    m = {
        "version": 1,
        "setup_cmd": "./bin/ensure_env.sh",
        "hooks": {"guard": "PRIVATE_PGM_VERIF",
                  "enable": "no hooks are needed: the checks shadow names in module namespaces at run time (PRIVATE_PGM_VERIF is reserved, unused)",
                  "baseline_off_cmd": "cd /repo && /venv/bin/python -m pytest -ra -q -p no:cacheprovider --timeout=900 --continue-on-collection-errors",
                  "source_commits": [], "add_only": True},
        "engines": [{"name": "symx", "path": "/verif/symx", "serves_properties": sorted(claimed),
                     "kind_free_text": "symbolic execution of the real Python/numpy code on z3-term scalars (object arrays), fork-on-bool path "
                                       "explorer, z3 NRA/LRA queries, CrossHair for pure-Python Domain code, float replay of counterexamples"}],
        "checks": checks,
        "not_applicable": sorted(na, key=lambda x: x["property_id"]),
        "notes": "All checks: exit 0 held / 1 VIOLATION (replayed on the real code) / 3 harness error or inconclusive (no verdict). "
                 "VERIF_REPO may point the checks at another checkout (used for seeded-defect trials). known_findings.json lists genuine defects.",
    }
    json.dump(m, open(os.path.join(V, "MANIFEST.json"), "w"), indent=1)
    print("claimed:", sorted(claimed))


if __name__ == "__main__":
    main()

#!/bin/bash
# usage: try_seed_only.sh <seed-id> <check-id> <tier> <only-substring>
SID=$1; CID=$2; TIER=$3; ONLY=$4
WT=/tmp/mut_${SID}_$$
git -C /repo worktree add -q --detach $WT HEAD || exit 2
git -C $WT apply /verif/seeded/$SID/patch.diff || { git -C /repo worktree remove --force $WT; exit 2; }
cd /verif
VERIF_REPO=$WT ./bin/check $CID --tier $TIER --only "$ONLY" > /tmp/mut_${SID}_${CID}_only.log 2>&1; RC=$?
git -C /repo worktree remove --force $WT
echo "$SID vs $CID ($TIER, only=$ONLY): exit=$RC  $(grep -m1 '^VIOLATION' -A1 /tmp/mut_${SID}_${CID}_only.log | tail -1 | cut -c1-200)"

"""C05 -- mechanisms never spend more privacy than the (epsilon, delta) budget          (C06 re-uses the same runs)

The real drivers (mst.MST, mwem+pgm.mwem_pgm, aim.AIM.run, adaptive_grid.adagrid) are executed in lock-step on a concrete
neighbouring pair (D, D') with rho (or epsilon), every released value, every estimator answer and hence every selection score
symbolic; every private selection forks over all candidates, every threshold / annealing test forks.  Per path:
      sum over events of the cost charged from the ACTUAL operands / probability vectors   <=   rho  (resp. epsilon).
"""
import itertools
import math
import sys

import numpy as np
import z3

from symx import core, harness, shims, solve, values
from symx.core import SR, ST
from symx.harness import Result
from . import common, mech

PROPERTY = "C05"
LEVEL = "model_checking"
TECHNIQUE = ("relational (self-composition) bounded symbolic execution of the real mechanism drivers on a neighbouring pair; Gaussian releases charged "
             "|x(D)-x(D')|^2/(2 scale^2), Laplace |dx|_1/scale, selections (2 max_i |X_i(D)-X_i(D')|)^2/8 from the exponents of the captured "
             "probability vectors; obligation sum(charges) <= rho (or epsilon) on every explored path, decided by z3 (NRA with sqrt-defined scales)")
BOUNDS = {
    "quick": "domains of 3 attributes (sizes 2-3), 4-6 records, neighbours {remove last, add one (unbounded); replace one (bounded variants)}; "
             "MST; MWEM+PGM rounds 1-2 x noise {gaussian, laplace} x bounded {F,T}; AIM rounds 2-3 (loop explored to 3 iterations); all selection outcomes",
    "thorough": "quick + more neighbour pairs, MWEM rounds 3, AIM rounds 1-4 with loop depth 4, Adaptive Grid with default and custom split",
}
OUTSIDE = ("datasets are a finite family (pandas cannot carry symbolic records); the Gaussian / exponential-mechanism zCDP theorems themselves and the "
           "lemma |LSE(s)-LSE(s')| <= max|s-s'|; cdp_rho (C07); floating-point attacks; paths beyond the stated loop depth (reported as bound hits)")
ASSUMPTIONS = ["estimation is post-processing (havoc'd, arguments recorded)", "samplers draw from the distribution whose parameters they are passed",
               "rho > 0 / epsilon > 0 symbolic", "real-number semantics with 1e-6 relative slack for the float constants the code mixes in"]
SHIMS_USED = ["np.zeros/np.ones", "softmax", "logsumexp", "exp"]

REC3 = [(0, 0, 0), (1, 1, 0), (0, 1, 1), (1, 0, 1), (1, 1, 1)]


def neighbours(kind):
    """-> (records D, records D')"""
    if kind == "remove":
        return REC3, REC3[:-1]
    if kind == "add":
        return REC3[:-1], REC3[:-1] + [(0, 0, 1)]
    if kind == "remove2":
        return REC3, REC3[1:]
    if kind == "replace":
        return REC3, REC3[:-1] + [(0, 0, 0)]
    if kind == "replace2":
        return REC3, [(1, 0, 0)] + REC3[1:]
    raise ValueError(kind)


def configs(tier, seed):
    cfgs = []
    # MST, AIM and Adaptive Grid are add/remove-one (unbounded) mechanisms: replace-one is not their adjacency notion (a first thorough run
    # wrongly included it for MST and duly reported twice the budget - a mistake of the harness, not of MST)
    nbs = ["remove", "add"] if tier == "quick" else ["remove", "add", "remove2"]
    for nb in nbs:
        cfgs.append(dict(name="mst:%s" % nb, mech="mst", nb=nb, sizes=(2, 2, 2), cost=30, timeout=1500))
    for noise in ("gaussian", "laplace"):
        for bounded in (False, True):
            for rounds in ([1, 2] if tier == "quick" else [1, 2, 3]):
                for nb in (["replace", "replace2"] if bounded else ["remove", "add"]):
                    if tier == "quick" and nb in ("add", "replace2") and rounds > 1:
                        continue
                    cfgs.append(dict(name="mwem:%s:bounded%d:r%d:%s" % (noise, bounded, rounds, nb), mech="mwem", noise=noise, bounded=bounded,
                                     rounds=rounds, nb=nb, sizes=(2, 2, 2), cost=5 * rounds, timeout=900))
    # two attributes, one workload clique, rounds = 5: the loop runs three iterations (annealing in an early round changes the cost of later ones)
    cfgs.append(dict(name="aim2:r5:remove", mech="aim", rounds=5, nb="remove", sizes=(2, 2), attrs="ab", workload=[("a", "b")], depth=4,
                     cost=60, timeout=1500, max_paths=600))
    if tier == "thorough":
        cfgs.append(dict(name="aim2:r7:add", mech="aim", rounds=7, nb="add", sizes=(2, 2), attrs="ab", workload=[("a", "b")], depth=6,
                         cost=200, timeout=1500, max_paths=3000, core=False))
    for nb in (["remove"] if tier == "quick" else ["remove", "add"]):
        for split in [None, [0.1, 0.1, 0.8]]:
            for targets in ([[]] if tier == "quick" else [[], ["b"]]):
                cfgs.append(dict(name="adagrid:%s:split%s:targets%s" % (nb, "default" if split is None else "custom", "".join(targets) or "none"),
                                 mech="adagrid", nb=nb, split=split, targets=targets, sizes=(2, 2) if not targets else (2, 2, 2),
                                 attrs="ab" if not targets else "abc", threshold=1.0, cost=60, timeout=2400, max_paths=3000, core=not targets))
    for rounds in ([2, 3] if tier == "quick" else [1, 2, 3, 4]):
        for nb in (["remove"] if tier == "quick" else ["remove", "add"]):
            cfgs.append(dict(name="aim:r%d:%s" % (rounds, nb), mech="aim", rounds=rounds, nb=nb, sizes=(2, 2, 2), depth=3 if tier == "quick" else 4,
                             cost=40, timeout=1500))
    return cfgs


def budget_triples(V, T, ch, budget, what):
    tot = 0
    for label, c in ch:
        if c is None:
            T.append(("C05:%s uses a noise kind its accounting does not cover" % label, False, True))
            continue
        tot = tot + c
    T.append(("C05:total cost of %d events within %s" % (len(ch), what), V.le(tot, budget * (1 + 1e-6)), True))
    return tot


def flow_triples(V, T, runs, D, outs):
    """C06: estimator arguments, constructor arguments and output identical in both runs; output in the original domain"""
    (ev0, r0), (ev1, r1) = runs
    T.append(("C06:same number of estimate calls", len(r0["est_calls"]), len(r1["est_calls"])))
    T.append(("C06:estimators constructed alike", str(r0["fi_ctor"]), str(r1["fi_ctor"])))
    for j, (a, b) in enumerate(zip(r0["est_calls"], r1["est_calls"])):
        T.append(("C06:estimate[%d] domain/engine" % j, str((a["domain"], a["engine"])), str((b["domain"], b["engine"]))))
        T.append(("C06:estimate[%d] number of measurements" % j, len(a["measurements"]), len(b["measurements"])))
        ta, tb = a["total"], b["total"]
        if (ta is None) != (tb is None):
            T.append(("C06:estimate[%d] total given in one run only" % j, False, True))
        elif ta is not None:
            T.append(("C06:estimate[%d] total does not depend on the data" % j, ta, tb))
        for i, (ma, mb) in enumerate(zip(a["measurements"], b["measurements"])):
            T.append(("C06:estimate[%d].m[%d] query/projection" % (j, i), str((ma["Q"], ma["proj"])), str((mb["Q"], mb["proj"]))))
            T.append(("C06:estimate[%d].m[%d] noise level" % (j, i), ma["noise"], mb["noise"]))
            T.append(("C06:estimate[%d].m[%d] len(y)" % (j, i), len(ma["y"]), len(mb["y"])))
            for q, (ya, yb) in enumerate(zip(ma["y"], mb["y"])):
                T.append(("C06:estimate[%d].m[%d].y[%d] is a released value only" % (j, i, q), ya, yb))
    sa, sb = r0.get("synth_args", []), r1.get("synth_args", [])
    T.append(("C06:same number of synthetic_data calls", len(sa), len(sb)))
    for j, (a, b) in enumerate(zip(sa, sb)):
        T.append(("C06:synthetic_data[%d] method" % j, str(a["method"]), str(b["method"])))
        if (a["rows"] is None) != (b["rows"] is None):
            T.append(("C06:synthetic_data[%d] rows given in one run only" % j, False, True))
        elif a["rows"] is not None:
            T.append(("C06:synthetic_data[%d] requested row count does not depend on the data" % j, a["rows"], b["rows"]))
    o0, o1 = outs
    T.append(("C06:output conforms to the original domain", str((tuple(o0.domain.attrs), tuple(o0.domain.shape))), str((tuple(D.domain.attrs), tuple(D.domain.shape)))))
    T.append(("C06:identical output", o0.df.values.tolist() == o1.df.values.tolist() and tuple(o0.domain.attrs) == tuple(o1.domain.attrs), True))


def scenario_for(cfg):
    attrs, sizes = list(cfg.get("attrs", "abc")), tuple(cfg["sizes"])

    def scenario(V):
        mbi = common.mbi_for(V)
        recD, recD2 = neighbours(cfg["nb"])
        recD, recD2 = [r[:len(attrs)] for r in recD], [r[:len(attrs)] for r in recD2]
        datas = [mech.dataset(mbi, attrs, sizes, recD), mech.dataset(mbi, attrs, sizes, recD2)]
        T = []
        picks = {}
        runs, outs = [], []
        name = cfg["mech"]
        if name == "mst":
            mod = mech.prepare(V, "mst")
            mods = [mod]
        elif name == "mwem":
            mod = mech.prepare(V, "mwem+pgm")
            mods = [mod]
        elif name == "aim":
            mm = mech.prepare(V, "mechanism")
            mod = mech.prepare(V, "aim")
            mods = [mod, mm]
        elif name == "adagrid":
            mod = mech.prepare(V, "adaptive_grid")
            mods = [mod]
        pure = name == "mwem" and cfg["noise"] == "laplace"
        if V.symbolic:
            budget = V.real("eps" if pure else "rho", "p")
        else:
            cdp = shims.load_mechanism_file("cdp2adp")
            budget = V.env.setdefault("eps" if pure else "rho", 1.0 if pure else cdp.cdp_rho(1.0, 1e-6))
        for rid, data in enumerate(datas):
            run = mech.new_run()
            rec = mech.MechRecorder(V, rid, picks, reference=runs[0][0] if rid == 1 else None)
            try:
              with mech.module_env(V, mods, rec, run, budget):
                  if name == "mst":
                      out = mod.MST(data, 1.0, 1e-6)
                  elif name == "mwem":
                      eps_arg = budget if pure else 1.0
                      out = mod.mwem_pgm(data, eps_arg, 1e-6, workload=[("a", "b"), ("b", "c")], rounds=cfg["rounds"], noise=cfg["noise"],
                                         bounded=cfg["bounded"], pgm_iters=5)
                  elif name == "adagrid":
                      out = mod.adagrid(data, 1.0, 1e-6, cfg["threshold"], targets=list(cfg["targets"]), split_strategy=cfg["split"], iters=5)
                  elif name == "aim":
                      M = mod.AIM(1.0, 1e-6, rounds=cfg["rounds"], max_model_size=80)
                      _AIM_DEPTH["n"] = 0
                      _AIM_DEPTH["max"] = cfg["depth"]
                      wl = cfg.get("workload") or [("a", "b"), ("b", "c")]
                      out = M.run(data, [(tuple(cl), 1.0) for cl in wl])
            except mech.Divergence as e:
                T.append(("C06:lock-step: " + str(e), False, True))
                return T
            runs.append((rec.events, run))
            outs.append(out)
        ch, Ts = mech.charges(V, runs[0][0], runs[1][0], zcdp=not pure)
        for l, g, w in Ts:
            T.append(("C06:" + l, g, w))
        budget_triples(V, T, ch, budget, "epsilon" if pure else "rho")
        flow_triples(V, T, runs, datas[0], outs)
        return T
    return scenario


_AIM_DEPTH = {"n": 0, "max": 3}


def run_config(cfg, prop="C05"):
    res = Result(cfg)
    V = values.SymVals()
    mst = mech.prepare(V, "mst")
    mw = mech.prepare(V, "mwem+pgm")
    mm = mech.prepare(V, "mechanism")
    aim = mech.prepare(V, "aim")
    ag = mech.prepare(V, "adaptive_grid")
    res.functions = shims.fn_fingerprint(ag.adagrid, ag.select, ag.exponential_mechanism, ag.get_identity, ag.get_aggregate, ag.get_permutation_matrix,
                                         mst.MST, mst.measure, mst.compress_domain, mst.select, mst.exponential_mechanism, mst.transform_data,
                                         mst.reverse_data, mw.mwem_pgm, mw.worst_approximated, aim.AIM.run, aim.AIM.worst_approximated,
                                         aim.AIM.__init__, mm.Mechanism.__init__, mm.Mechanism.exponential_mechanism, mm.Mechanism.gaussian_noise)
    sc = scenario_for(cfg)

    def filtered(Vx):
        return [(l, g, w) for l, g, w in sc(Vx) if l.startswith(prop + ":")]
    values.run_scenario(res, filtered, rng=harness.rng_for(cfg), timeout_ms=60000, max_paths=cfg.get("max_paths", 400), max_decisions=80,
                        fidelity=True)
    return res


def finding_key(c):
    what = c.get("what", "")
    what = "".join(ch for ch in what if not ch.isdigit())[:60]
    if "side:" in what:
        what = "C:total cost of  events within rho"     # a failed sqrt/division side obligation in the budget arithmetic is the same finding
    cfg = c["config"]
    if c.get("kind") in ("exception", "poison"):
        what = c.get("kind") + ":" + str(c.get("where", c.get("why", "")))[:70]
    extra = ""
    if cfg["mech"] == "mwem":
        extra = ":%s:bounded%d" % (cfg["noise"], cfg["bounded"])
    if cfg["mech"] == "aim":
        extra = ":rounds%d" % cfg["rounds"]
    if cfg["mech"] == "adagrid":
        extra = ":targets%s" % ("".join(cfg["targets"]) or "none")
    return "%s%s:%s" % (cfg["mech"], extra, what)


def replay(c, prop="C05"):
    """concrete accounting on the real code: same lock-step construction with floats (released values fixed, picks following the path)"""
    cfg = c["config"]
    sc = scenario_for(cfg)
    import random
    policies = [lambda k, n: 0, lambda k, n: n - 1, lambda k, n: k % n, lambda k, n: (k + 1) % n]
    rng = random.Random(11)
    attempts = []
    if c.get("env"):
        attempts.append((dict(c["env"]), False))
    attempts.append((None, False))
    attempts += [(None, True)] * 12
    worst = None
    for env, rnd in attempts:
        for pol in policies:
            mech.PICK_POLICY["f"] = pol
            F = values.FloatVals(env=env, rng=rng)
            F.randomize = rnd
            try:
                triples = [(l, g, w) for l, g, w in sc(F) if l.startswith(prop + ":")]
            except values.REAL_EXC as e:
                return {"reproduced": True, "detail": "real code raised %s: %s" % (type(e).__name__, e)}
            finally:
                mech.PICK_POLICY["f"] = lambda k, n: 0
            bad = values.float_compare(triples, 1e-6)
            if bad:
                return {"reproduced": True, "detail": "concrete lock-step accounting on the real code: %s" % (bad[:3],), "n_bad": len(bad),
                        "inputs": {k: v for k, v in list(F.env.items())[:40]}}
    return {"reproduced": False, "detail": "concrete lock-step accounting stayed within budget / in lock-step at the model point and 13 other points x 4 selection policies"}


if __name__ == "__main__":
    harness.main(sys.modules[__name__])

"""C08 -- the model returned by estimation is one coherent, valid distribution.

(1) The real FactoredInference.estimate runs end to end (mirror descent with given step / with Armijo line search, dual
    averaging, interior gradient) with y, sigma, total and step size symbolic; on every path (early exits, line-search
    outcomes) the stored marginals must equal belief_propagation(stored potentials) and the answers must be valid.
(2) The refit used by dual averaging / interior gradient, BP(mle(w)) == w, is checked for w = marginals of an arbitrary
    symbolic joint -- i.e. for every locally consistent w, hence for every iteration count.
"""
import sys

import numpy as np

from symx import core, harness, shims, solve, values
from symx.harness import Result
from . import common, estim
from .common import CAT3, CAT4, CAT5

PROPERTY = "C08"
LEVEL = "model_checking"
TECHNIQUE = ("bounded symbolic execution of the real estimate()/mirror_descent/dual_averaging/interior_gradient with exp as an abstracted positive "
             "function; path forks on every data-dependent branch (loss==0, L==0, Armijo test); obligations stored-marginals == BP(parameters), "
             "answers >= 0, sum to total, mutually consistent; plus the inductive lemma BP(mle(w)) == w for marginals w of an arbitrary symbolic "
             "joint; all NRA identities / inequalities decided by z3")
BOUNDS = {
    "quick": "domain a,b,c sizes (2,2,2); 7 measurement families (incl. empty); solvers MD(step given) iters 1-2, MD(line search, Armijo loop cut "
             "to 3 halvings) iters 1, RDA iters 1-2, IG(lipschitz given) iters 1-2; refit lemma on the 3-/4-attribute catalogues",
    "thorough": "quick + sizes (2,3,2); MD line search with the full 25 halvings (iters 1) and cut 2 with iters 2; RDA/IG iters 3; IG with the "
                "computed (symbolic) Lipschitz constant; total omitted; refit lemma on the 5-attribute catalogue and sizes (2,3,2,2)",
}
OUTSIDE = ("iteration counts beyond the bounds for mirror descent (its (theta, BP(theta)) pair is the same computation at every count, so the bounded "
           "runs exercise the only places the pair can go out of sync: the exits); float rounding; the 1e-100 regulariser in Factor.log (taken as 0)")
ASSUMPTIONS = ["real-number semantics; exp abstracted as a positive function with exp(a)exp(b)=exp(a+b) built in", "noise scales > 0, total > 0, step size > 0",
               "query patterns are enumerated; y, sigma, total, step size are symbolic", "eigsh runs concretely on the concrete query patterns"]
SHIMS_USED = ["np.zeros/np.ones", "logsumexp", "exp", "float", "sparse @ object-array", "lsmr", "eigsh", "np.allclose", "1e-100 / nextafter(0,1) regularisers"]


def configs(tier, seed):
    cfgs = []
    plan = [("MD_step", 1, None), ("MD_step", 2, None), ("MD_ls", 1, 3), ("RDA", 1, None), ("RDA", 2, None), ("IG", 1, None), ("IG", 2, None)]
    sizes_list = [(2, 2, 2)]
    if tier == "thorough":
        plan += [("MD_ls", 1, 25), ("MD_ls", 2, 2), ("RDA", 3, None), ("IG", 3, None), ("IG_symL", 1, None), ("MD_step", 3, None)]
        sizes_list.append((2, 3, 2))
    for sizes in sizes_list:
        for fam in estim.FAMS:
            for solver, iters, cut in plan:
                heavy = ((solver == "IG_symL") or (solver == "MD_ls" and cut == 25) or iters >= 3 or sizes != (2, 2, 2)
                         or (solver in ("RDA", "IG") and iters >= 2 and fam not in ("oneway", "single", "empty")))
                if tier == "quick" and solver in ("RDA", "IG") and iters >= 2 and fam not in ("oneway", "single", "empty"):
                    continue      # the mixtures of two BP outputs on overlapping cliques are in the thorough tier (minutes each)
                if tier == "thorough":
                    # measured: the full cross product does not finish in 90 min; the expensive combinations are kept where they add a new path shape
                    if sizes != (2, 2, 2) and (iters >= 2 or fam not in ("two_overlap", "triangle", "oneway")):
                        continue
                    if solver == "MD_ls" and cut == 25 and fam not in ("single", "oneway", "two_overlap"):
                        continue
                    if iters >= 3 and fam not in ("oneway", "single"):
                        continue
                    if solver == "IG_symL" and fam not in ("single", "oneway"):
                        continue
                    if solver in ("RDA", "IG") and iters == 2 and fam not in ("oneway", "single", "empty", "two_overlap", "nested_perm"):
                        continue
                cfgs.append(dict(name="est:%s:%s:%s:i%d:c%s" % (fam, sizes, solver, iters, cut), kind="estimate", fam=fam, sizes=sizes,
                                 solver=solver, iters=iters, cut=cut, total="given", core=not heavy, cost=30 if heavy else 5,
                                 timeout=600 if heavy else 300))
        if tier == "thorough":
            for fam in ("two_overlap", "oneway"):
                cfgs.append(dict(name="est:%s:%s:MD_step:i1:total_omitted" % (fam, sizes), kind="estimate", fam=fam, sizes=sizes,
                                 solver="MD_step", iters=1, cut=None, total="omitted", cost=5))
    cats = [("abc", (2, 3, 2), CAT3), ("abcd", (2, 2, 2, 2), {k: CAT4[k] for k in ("mid_first4", "sorted_not_rip", "cycle4", "star4", "pair_pair", "three_way_sep")})]
    # structural zeros that remove a whole separator value: every solver, one iteration
    for solver in ("MD_step", "RDA", "IG"):
        for zname in ("full_row", "separator_value"):
            cfgs.append(dict(name="est:two_overlap:(2, 2, 2):%s:i1:zeros_%s" % (solver, zname), kind="estimate", fam="two_overlap", sizes=(2, 2, 2),
                             solver=solver, iters=1, cut=None, total="given", zeros=zname, cost=5, timeout=300))
    if tier == "thorough":
        cats += [("abc", (1, 2, 3), CAT3), ("abcd", (2, 2, 2, 2), CAT4), ("abcd", (2, 3, 2, 2), CAT4), ("abcde", (2, 2, 2, 2, 2), CAT5)]
    for attrs, sizes, cat in cats:
        for sname, cliques in cat.items():
            for zm in ("none", "some"):
                cfgs.append(dict(name="refit:%s:%s:%s" % (sname, sizes, zm), kind="refit", attrs=attrs, sizes=sizes, cliques=cliques, zmode=zm, cost=4,
                                 core=(len(sizes) <= 3 or (len(sizes) == 4 and max(sizes) <= 2)), timeout=600))
    return cfgs


def estimate_scenario(cfg):
    attrs, sizes = ["a", "b", "c"], tuple(cfg["sizes"])

    def scenario(V):
        mbi = estim.prepare_inference(V, cfg["cut"])
        dom = mbi.Domain(attrs, sizes)
        N = V.real("N", "p") if cfg["total"] == "given" else None
        ms = estim.measurements(V, dom, estim.FAMS[cfg["fam"]])
        zs = {}
        if cfg.get("zeros"):
            from .c10_structural_zeros import ZEROS
            zs = {k: list(v) for k, v in ZEROS[cfg["zeros"]].items()}
        eng = mbi.FactoredInference(dom, iters=cfg["iters"], structural_zeros=zs)
        name, opts = estim.solver_options(V, cfg["solver"])
        model = eng.estimate(ms, total=N, engine=name, options=opts)
        T = []
        if N is None:
            N = model.total
        estim.model_answers(V, T, model, dom, attrs, N, "")
        return T
    return scenario


def refit_scenario(cfg):
    attrs, sizes = list(cfg["attrs"]), tuple(cfg["sizes"])
    cliques = [tuple(c) for c in cfg["cliques"]]

    def scenario(V):
        mbi = common.mbi_for(V)
        dom = mbi.Domain(attrs, sizes)
        # an arbitrary joint table (zero cells by enumerated pattern); its total is the model total
        idxs = list(np.ndindex(*sizes))
        zs = common.zero_cells(sizes, cfg["zmode"], salt=1) if cfg["zmode"] != "none" else set()
        P = {x: (0.0 if x in zs else V.real("P_%s" % "".join(map(str, x)), "p")) for x in idxs}
        N = V.sum([v for v in P.values()])
        model = mbi.GraphicalModel(dom, cliques, total=N)
        w = {}
        for cl in model.cliques:
            pos = [attrs.index(a) for a in cl]
            d = dom.project(cl)
            w[cl] = mbi.Factor(d, V.array(d.shape, lambda idx: V.sum([v for x, v in P.items() if all(x[p] == i for p, i in zip(pos, idx))] or [0.0])))
        w = mbi.CliqueVector(w)
        pots = model.mle(w)
        bp = model.belief_propagation(pots)
        T = []
        for cl in model.cliques:
            for idx, g in common.factor_cells(bp[cl]):
                T.append(("BP(mle(w))==w[%s]%s" % ("".join(cl), "".join(map(str, idx))), g, w[cl].values[idx]))
        # and out-of-clique answers computed from the refit parameters agree with the joint's own marginals when the
        # joint factorises over the tree; in general they must still agree with the stored marginals on shared attributes
        model.potentials = pots
        model.marginals = w
        for a in attrs:
            Fa = model.project((a,))
            pos = attrs.index(a)
            for idx, g in common.factor_cells(Fa):
                T.append(("project(%s)%s" % (a, idx), g, V.sum([v for x, v in P.items() if x[pos] == idx[0]] or [0.0])))
        return T
    return scenario


def scenario_for(cfg):
    return estimate_scenario(cfg) if cfg["kind"] == "estimate" else refit_scenario(cfg)


def run_config(cfg):
    res = Result(cfg)
    mbi = common.mbi_for(True)
    FI, G = mbi.FactoredInference, mbi.GraphicalModel
    res.functions = shims.fn_fingerprint(FI.estimate, FI.mirror_descent, FI.dual_averaging, FI.interior_gradient, FI._setup, FI._marginal_loss,
                                         FI._lipschitz, G.mle, G.belief_propagation, G.project, mbi.CliqueVector.combine)
    deep = cfg.get("cut") == 25
    values.run_scenario(res, scenario_for(cfg), rng=harness.rng_for(cfg), timeout_ms=60000,
                        max_paths=80 if deep else 40, max_decisions=120)
    return res


def finding_key(c):
    what = c.get("what", "").split("[")[0]
    what = "".join(ch for ch in what if not ch.isdigit())
    cfg = c["config"]
    if c.get("kind") in ("exception", "poison"):
        what = c.get("kind") + ":" + str(c.get("where", c.get("why", "")))[:70]
    return "%s:%s:%s:%s" % (cfg["kind"], cfg.get("solver", cfg.get("zmode")), cfg.get("fam", cfg["name"].split(":")[1]), what)


def replay(c):
    return values.replay_scenario(scenario_for(c["config"]), c)


if __name__ == "__main__":
    harness.main(sys.modules[__name__])

"""C09 -- known totals are honoured; unknown totals are the best linear (inverse-variance weighted) estimate.

The three importable copies of the estimator (FactoredInference._setup, LocalInference._setup,
public_inference.estimate_total) run with every y and every noise scale symbolic; query matrices are enumerated
concrete patterns and scipy's lsmr is replaced by its contract (exact minimum-norm least-squares solution).
"""
import sys
from fractions import Fraction

import numpy as np

from symx import core, harness, shims, solve, values
from symx.core import SR
from symx.harness import Result
from . import common

PROPERTY = "C09"
LEVEL = "model_checking"
TECHNIQUE = ("bounded symbolic execution of the real total-estimation code with symbolic y / sigma; lsmr by contract; max(1, .) forks the path; "
             "obligation: total == max(1, sum(est_m/var_m)/sum(1/var_m)) over exactly the measurements whose query rows span the ones vector, "
             "total == N for noise-free answers of a table with N >= 1, and a supplied total is used as is; decided by z3 (NRA)")
BOUNDS = {
    "quick": "query patterns {identity, scaled identity, prefix, total row, integer full-rank, rank-deficient without ones, rank-deficient with ones, "
             "dense/sparse/operator spellings}, sizes 1-6, 1-4 measurements per call, 3 estimator copies",
    "thorough": "quick + every ordered pair of patterns, 256 triples, sizes up to 10",
}
OUTSIDE = ("convergence of scipy's iterative lsmr beyond the matrices of the configuration family: the contract is validated on every matrix used here "
           "(the real lsmr, called with the working tree's arguments, must pass/fail the row-space test exactly when the exact rational solution "
           "does) - that validation found the min(m,n)-iterations defect, fixed in /repo; mixture_inference (jax is not installed)")
ASSUMPTIONS = ["real-number semantics", "lsmr returns the exact minimum-norm least-squares solution (its documented contract)",
               "noise scales > 0", "query patterns are enumerated; y, sigma, the data table and the supplied total are symbolic"]
SHIMS_USED = ["np.zeros/np.ones", "lsmr", "np.allclose", "float", "sparse @ object-array"]

PATTERNS = {
    "I": lambda n: np.eye(n),
    "2I": lambda n: 2.0 * np.eye(n),
    "P": lambda n: np.tril(np.ones((n, n))),
    "T": lambda n: np.ones((1, n)),
    "F": lambda n: (np.array([[((3 * i + 5 * j + i * j) % 4) + (2 if i == j else 0) for j in range(n)] for i in range(n)], dtype=float)),
    "R0": lambda n: np.array([[1.0] + [0.0] * (n - 1), [2.0] + [0.0] * (n - 1)]),             # rank 1, ones not in row space (n>1)
    "R1": lambda n: np.array([[1.0] * n, [2.0] * n, [1.0] + [0.0] * (n - 1)]),                  # rank-deficient rows, ones in row space
    "H": lambda n: np.array([[1.0 if j < (n + 1) // 2 else 0.0 for j in range(n)], [0.0 if j < (n + 1) // 2 else 1.0 for j in range(n)]]) if n > 1 else np.ones((1, 1)),
}


def configs(tier, seed):
    cfgs = []
    fams = [
        [("I", 3, "dense")],
        [("I", 2, "sparse"), ("I", 3, "sparse")],
        [("2I", 4, "dense"), ("P", 3, "dense")],
        [("P", 6, "sparse"), ("T", 2, "dense")],
        [("F", 3, "dense"), ("I", 2, "operator")],
        [("R0", 3, "dense")],
        [("R0", 4, "sparse"), ("I", 2, "dense")],
        [("R1", 3, "dense"), ("H", 4, "dense")],
        [("T", 6, "dense"), ("T", 2, "sparse"), ("T", 3, "operator")],
        [("F", 4, "sparse"), ("R0", 2, "dense"), ("P", 2, "dense"), ("2I", 3, "operator")],
        [("I", 1, "dense"), ("H", 6, "sparse")],
        [],
        [("I", 3, "dense", 0), ("P", 3, "dense", 0)],                       # same attribute, same shape, different matrices
        [("2I", 4, "sparse", 0), ("I", 4, "dense", 0), ("F", 4, "dense", 0)],
    ]
    if tier == "thorough":
        pats = ["I", "2I", "P", "T", "F", "R0", "R1", "H"]
        for i, a in enumerate(pats):
            for j, b in enumerate(pats):
                fams.append([(a, 2 + (i + j) % 5, "dense"), (b, 3 + (i * j) % 6, "sparse")])
        fams.append([("P", 8, "dense"), ("F", 5, "dense"), ("I", 8, "sparse")])
        for i, a in enumerate(pats):
            for j, b in enumerate(pats):
                for k_, c in enumerate(pats[::2]):
                    fams.append([(a, 2 + (i + k_) % 4, "sparse"), (b, 2 + (j * 3 + k_) % 7, "operator"), (c, 3 + (i + j) % 6, "dense")])
        fams.append([("F", 10, "dense"), ("P", 10, "sparse"), ("H", 9, "dense"), ("R1", 7, "dense")])
    for k, fam in enumerate(fams):
        for impl in ("factored", "local", "public"):
            cfgs.append(dict(name="%s:%d:%s" % (impl, k, "+".join("%s%d%s" % (f[0], f[1], f[2][0]) for f in fam)), impl=impl, fam=fam, cost=2))
    return cfgs


# attribute sizes available for projections: a measurement over a domain of size n uses one fresh attribute of that size
def domain_for(fam):
    attrs = ["x%d" % i for i in range(len(fam))] or ["x0"]
    sizes = [f[1] for f in fam] or [2]
    return attrs, sizes


def exact_v(Q):
    A = [[Fraction(float(Q[i, j])).limit_denominator(10**9) for i in range(Q.shape[0])] for j in range(Q.shape[1])]   # Q^T
    v = shims.exact_pinv_solve(A, [Fraction(1)] * Q.shape[1])
    ok = all(sum(A[j][i] * v[i] for i in range(len(v))) == 1 for j in range(len(A)))
    return v, ok


def lsmr_kwargs(mbi):
    """the keyword arguments (beyond atol=0, btol=0) with which the working tree's _setup calls lsmr, read from its source"""
    import inspect
    import re
    src = inspect.getsource(mbi.FactoredInference._setup)
    m = re.search(r"lsmr\(Q\.T,\s*o,\s*atol=0,\s*btol=0(.*?)\)\[0\]", src)
    extra = (m.group(1) if m else "").strip().lstrip(",").strip()
    if not extra:
        return {}
    return dict(_LsmrArgs.parse(extra))


def real_lsmr_as_called(mbi, impl, Q):
    """scipy's lsmr evaluated through the very call expression (`lsmr(Q.T, o, ...)`) found in the working tree's source of the implementation
    under test (FactoredInference._setup / LocalInference._setup / public_inference.estimate_total), so that dropped or changed solver arguments
    in any one copy are seen by the contract validation of that copy."""
    import ast
    import inspect
    import textwrap
    from scipy.sparse.linalg import lsmr as real_lsmr
    import mbi.public_inference as pi
    fn = {"factored": mbi.FactoredInference._setup, "local": mbi.LocalInference._setup}.get(impl, pi.estimate_total)
    tree = ast.parse(textwrap.dedent(inspect.getsource(fn)))
    calls = [n for n in ast.walk(tree) if isinstance(n, ast.Call) and isinstance(n.func, ast.Name) and n.func.id == "lsmr"]
    if len(calls) != 1:
        kw = lsmr_kwargs(mbi)
        return real_lsmr(Q.T, np.ones(Q.shape[1]), atol=0, btol=0, **kw)[0]
    code = compile(ast.Expression(calls[0]), "<lsmr call of %s>" % fn.__qualname__, "eval")
    env = dict(inspect.getmodule(fn).__dict__)
    env.update(lsmr=real_lsmr, Q=Q, o=np.ones(Q.shape[1]), np=np, max=max, min=min)
    return eval(code, env)[0]


class _LsmrArgs:
    @staticmethod
    def parse(text):
        out = []
        for part in text.split(","):
            if "=" in part:
                k, v = part.split("=", 1)
                try:
                    out.append((k.strip(), eval(v, {"Q": _QShape, "max": max, "min": min})))
                except Exception:
                    pass
        return out


class _QShape:
    shape = (64, 64)


def scenario_for(cfg, mode):
    fam = [tuple(f) for f in cfg["fam"]]
    which = [f[3] if len(f) > 3 else i for i, f in enumerate(fam)]       # attribute index each measurement is about
    fam = [f[:3] for f in fam]
    impl = cfg["impl"]

    def scenario(V):
        from scipy import sparse
        from scipy.sparse.linalg import aslinearoperator
        mbi = common.mbi_for(V)
        if V.symbolic:
            import mbi.inference, mbi.local_inference, mbi.public_inference
            for m in (mbi.inference, mbi.local_inference, mbi.public_inference):
                if m.__dict__.get("lsmr") is not shims.lsmr_by_contract:
                    shims.shadow(m, lsmr=shims.lsmr_by_contract)
        attrs, sizes = domain_for(fam)
        dom = mbi.Domain(attrs, sizes)
        T = []
        ms, orc = [], []
        xs = {}
        N = None
        if mode == "noisefree":
            # one data table per attribute (independent attributes): x_k >= 0 with the same total N >= 1
            N = V.real("N", "p")
            if V.symbolic:
                core.ST.assume(N.term() >= 1)                        # ... with N >= 1 records
        for k, (pat, n, spell) in enumerate(fam):
            Q = PATTERNS[pat](n)
            if mode == "noisefree":
                cells = [V.real("x%d_%d" % (k, i), "nn") for i in range(n - 1)]
                last = N - V.sum(cells) if cells else N
                xs[k] = cells + [last]
                if V.symbolic and isinstance(last, SR):
                    core.ST.assume(last.frac()[0] >= 0)       # the clause's precondition: a dataset (all counts >= 0) ...
                y = V.array((Q.shape[0],), lambda idx: V.sum([float(Q[idx[0], j]) * xs[k][j] for j in range(n)]))
            else:
                y = V.array((Q.shape[0],), lambda idx: V.real("y%d_%d" % (k, idx[0])))
            sigma = V.real("sg%d" % k, "p")
            Qg = {"dense": Q, "sparse": sparse.csr_matrix(Q), "operator": aslinearoperator(Q)}[spell]
            ms.append((Qg, y, sigma, (attrs[which[k]],)))
            orc.append((Q, y, sigma))
            # validation of the lsmr contract the symbolic run relies on: scipy's lsmr, called exactly as the code calls it, must recognise the
            # ones vector in the row space of Q whenever it is there (and only then)
            from scipy.sparse.linalg import lsmr as real_lsmr
            _, expressible = exact_v(Q)
            vr = real_lsmr_as_called(mbi, impl, Q)
            T.append(("lsmr contract: %s%d row space test" % (pat, n), bool(np.allclose(Q.T.dot(vr), np.ones(Q.shape[1]))), bool(expressible)))
        # the same validation on larger prefix-sum workloads (concrete; the contract must hold for the sizes users pass, not only for the
        # sizes the symbolic run can afford): 16, 32, 64 cells
        if "P" in PATTERNS:
            for nbig in (16, 32, 64):
                Qb = PATTERNS["P"](nbig)
                vb = real_lsmr_as_called(mbi, impl, Qb)
                T.append(("lsmr contract: prefix%d row space test" % nbig, bool(np.allclose(Qb.T.dot(vb), np.ones(nbig))), True))
        # --- run the real code ---------------------------------------------------------------------------
        given_total = V.real("Ngiven", "p") if mode == "given" else None

        def run(total):
            if impl == "factored":
                eng = mbi.FactoredInference(dom, iters=1)
                eng._setup(eng.fix_measurements(list(ms)), total)
                return eng.model.total
            if impl == "local":
                eng = mbi.LocalInference(dom, iters=1, marginal_oracle="approx")
                eng._setup(list(ms), total)
                return eng.model.total
            import mbi.public_inference as pi
            if total is not None:
                return total      # PublicInference.estimate uses the supplied total directly (checked in C19)
            return pi.estimate_total(list(ms))
        if mode == "history_api":
            # the public entry point with the options argument left to its default, several calls with different supplied totals
            from . import estim
            estim.prepare_inference(V, 2)
            N1, N2 = V.real("N1", "p"), V.real("N2", "p")
            e2 = mbi.FactoredInference(dom, iters=0)
            m1 = e2.estimate(list(ms), total=N1)
            T.append(("history:estimate() uses the supplied total (1st call)", m1.total, N1))
            e3 = mbi.FactoredInference(dom, iters=0)
            m2 = e3.estimate(list(ms), total=N2)
            T.append(("history:estimate() uses the supplied total (2nd call, other estimator object)", m2.total, N2))
            m3 = e2.estimate(list(ms), total=N2)
            T.append(("history:estimate() uses the supplied total (same estimator object)", m3.total, N2))
            return T
        if mode == "history":
            # one warm-started estimator object, three calls with the same measurements: given N1, given N2, omitted
            N1, N2 = V.real("N1", "p"), V.real("N2", "p")
            if impl == "factored":
                eng = mbi.FactoredInference(dom, iters=1, warm_start=True)
                prep = lambda: eng.fix_measurements(list(ms))
            else:
                eng = mbi.LocalInference(dom, iters=1, marginal_oracle="approx", warm_start=True)
                prep = lambda: list(ms)
            eng._setup(prep(), N1)
            T.append(("history:first_supplied_total", eng.model.total, N1))
            eng._setup(prep(), N2)
            T.append(("history:second_supplied_total", eng.model.total, N2))
            eng._setup(prep(), None)
            got = eng.model.total
        else:
            got = run(given_total)
        if mode == "given":
            T.append(("supplied_total_used_exactly", got, given_total))
            return T
        # --- oracle: inverse-variance weighted combination over exactly the expressible measurements -------
        num, den, usable = 0, 0, 0
        for Q, y, sigma in orc:
            v, ok = exact_v(Q)
            if not ok:
                continue
            usable += 1
            est = V.sum([v[i] * y[i] for i in range(len(v))])
            var = sigma * sigma * sum(x * x for x in v)
            num = num + est / var
            den = den + 1 / var
        if usable == 0:
            T.append(("no_expressible_measurement_gives_1", got, 1))
            return T
        est = num / den
        if mode == "noisefree":
            T.append(("noise_free_total_is_N", got, N))
        else:
            T.append(("total_is_max(1,weighted_estimate)", got, _max1(V, est)))
        T.append(("at_least_one", V.ge(got, 1), True))
        return T
    return scenario


def _max1(V, est):
    """max(1, est) as a term"""
    import z3
    if isinstance(est, SR):
        n, d = est.frac()
        return SR(z3.If(n >= d, n, d)) * SR(d, None, "p").recip()
    return max(1, est)


def run_config(cfg):
    res = Result(cfg)
    mbi = common.mbi_for(True)
    import mbi.public_inference as pi
    res.functions = shims.fn_fingerprint(mbi.FactoredInference._setup, mbi.LocalInference._setup, pi.estimate_total,
                                         mbi.FactoredInference.fix_measurements)
    rng = harness.rng_for(cfg)
    for mode in ("noisy", "noisefree", "given", "history", "history_api"):
        if mode in ("given", "history", "history_api") and cfg["impl"] == "public":
            continue
        if mode == "history_api" and (cfg["impl"] != "factored" or len(cfg["fam"]) > 2):
            continue
        values.run_scenario(res, scenario_for(cfg, mode), rng=rng, tag=mode + ":", max_paths=8, timeout_ms=30000)
    return res


def finding_key(c):
    what = c.get("what", "")
    if c.get("kind") in ("exception", "poison"):
        what = what.split(":")[0] + ":" + c.get("kind") + ":" + str(c.get("where", c.get("why", "")))[:60]
    return "%s:%s" % (c["config"]["impl"], what)


def replay(c):
    mode = c.get("what", "noisy:").split(":")[0]
    if c.get("what", "").startswith("history_api"):
        mode = "history_api"
    if mode not in ("noisy", "noisefree", "given", "history", "history_api"):
        mode = "noisy"
    sc = scenario_for(c["config"], mode)
    env = dict(c.get("env") or {})
    if mode == "noisefree":
        # keep the clause's precondition N >= 1, x >= 0 in the random points as well
        env.setdefault("N", 7.0)
        for k, f_ in enumerate(c["config"]["fam"]):
            n = f_[1]
            for i in range(n - 1):
                env.setdefault("x%d_%d" % (k, i), 7.0 / (n + 1))
    c2 = dict(c)
    c2["env"] = env
    return values.replay_scenario(sc, c2, tries=1 if mode == "noisefree" else 3)


if __name__ == "__main__":
    harness.main(sys.modules[__name__])

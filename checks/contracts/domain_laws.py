"""PEP-316 contracts over the REAL mbi.domain.Domain (pure Python), checked by CrossHair.

The module under test is loaded straight from $VERIF_REPO/src/mbi/domain.py (default /repo) on every run.
Universe: attributes a,b,c,d with symbolic sizes; sub-domains are chosen by symbolic masks and rotations, so attribute tuples
range over ordered subsets.  Each law has a twin `*_reach` whose post-condition False must be REFUTED (the precondition is satisfiable).
"""
import importlib.util
import os
from functools import reduce
from typing import List, Tuple

_REPO = os.environ.get("VERIF_REPO", "/repo")
_spec = importlib.util.spec_from_file_location("domain_under_test", os.path.join(_REPO, "src", "mbi", "domain.py"))
_mod = importlib.util.module_from_spec(_spec)
_spec.loader.exec_module(_mod)
Domain = _mod.Domain

ATTRS = ("a", "b", "c", "d")


def _ok_sizes(sz: List[int]) -> bool:
    return len(sz) == 4 and all(1 <= x <= 6 for x in sz)


def _sub(mask: List[bool], rot: int) -> Tuple[str, ...]:
    sel = [a for a, m in zip(ATTRS, mask) if m]
    if sel:
        r = rot % len(sel)
        sel = sel[r:] + sel[:r]
    return tuple(sel)


def _prod(xs) -> int:
    out = 1
    for x in xs:
        out = out * x
    return out


def law_project(sz: List[int], mask: List[bool], rot: int) -> bool:
    """
    pre: _ok_sizes(sz) and len(mask) == 4 and 0 <= rot <= 3
    post: _
    """
    D = Domain(ATTRS, sz)
    S = _sub(mask, rot)
    P = D.project(S)
    cfg = dict(zip(ATTRS, sz))
    return P.attrs == S and P.shape == tuple(cfg[a] for a in S) and len(P) == len(S) and P.size() == _prod(cfg[a] for a in S)


def law_project_reach(sz: List[int], mask: List[bool], rot: int) -> bool:
    """
    pre: _ok_sizes(sz) and len(mask) == 4 and 0 <= rot <= 3
    post: False
    """
    return True


def law_marginalize_partition(sz: List[int], mask: List[bool], rot: int) -> bool:
    """
    pre: _ok_sizes(sz) and len(mask) == 4 and 0 <= rot <= 3
    post: _
    """
    D = Domain(ATTRS, sz)
    S = _sub(mask, rot)
    M = D.marginalize(S)
    P = D.project(S)
    rest = tuple(a for a in ATTRS if a not in S)
    return (M.attrs == rest and set(M.attrs) | set(P.attrs) == set(ATTRS) and not (set(M.attrs) & set(P.attrs))
            and M.size() * P.size() == D.size() and D.invert(S) == list(rest) and D.canonical(S) == tuple(a for a in ATTRS if a in S)
            and D.size(S) == P.size() and D.axes(S) == tuple(ATTRS.index(a) for a in S))


def law_marginalize_partition_reach(sz: List[int], mask: List[bool], rot: int) -> bool:
    """
    pre: _ok_sizes(sz) and len(mask) == 4 and 0 <= rot <= 3
    post: False
    """
    return True


def law_merge(sz: List[int], m1: List[bool], r1: int, m2: List[bool], r2: int) -> bool:
    """
    pre: len(sz) == 3 and all(1 <= x <= 6 for x in sz) and len(m1) == 3 and len(m2) == 3 and 0 <= r1 <= 2 and 0 <= r2 <= 2
    post: _
    """
    U = ATTRS[:3]
    D = Domain(U, sz)
    A = _sub3(m1, r1)
    B = _sub3(m2, r2)
    DA, DB = D.project(A), D.project(B)
    G = DA.merge(DB)
    extra = tuple(b for b in B if b not in A)
    cfg = dict(zip(U, sz))
    return (G.attrs == A + extra and G.attrs[:len(A)] == A and set(G.attrs) == set(A) | set(B)
            and G.shape == tuple(cfg[a] for a in G.attrs) and G.size() == DA.size() * _prod(cfg[b] for b in extra)
            and G.contains(DA) and G.contains(DB) and (DA.contains(DB) == (set(B) <= set(A))))


def law_merge_reach(sz: List[int], m1: List[bool], r1: int, m2: List[bool], r2: int) -> bool:
    """
    pre: len(sz) == 3 and all(1 <= x <= 6 for x in sz) and len(m1) == 3 and len(m2) == 3 and 0 <= r1 <= 2 and 0 <= r2 <= 2
    post: False
    """
    return True


def _sub3(mask: List[bool], rot: int) -> Tuple[str, ...]:
    sel = [a for a, m in zip(ATTRS[:3], mask) if m]
    if sel:
        r = rot % len(sel)
        sel = sel[r:] + sel[:r]
    return tuple(sel)


def law_size_sort_eq(sz: List[int], mask: List[bool], rot: int) -> bool:
    """
    pre: _ok_sizes(sz) and len(mask) == 4 and 0 <= rot <= 3
    post: _
    """
    D = Domain(ATTRS, sz)
    S = _sub(mask, rot)
    P = D.project(S)
    cfg = dict(zip(ATTRS, sz))
    by_size = P.sort("size")
    by_name = P.sort("name")
    ok_size = (set(by_size.attrs) == set(S) and len(by_size.attrs) == len(S)
               and all(cfg[by_size.attrs[i]] <= cfg[by_size.attrs[i + 1]] for i in range(len(S) - 1)))
    ok_name = by_name.attrs == tuple(sorted(S))
    return (ok_size and ok_name and D.size() == _prod(sz) and Domain((), ()).size() == 1 and P == D.project(S)
            and (P == D) == (S == ATTRS) and all((a in P) == (a in S) for a in ATTRS) and all(P[a] == cfg[a] for a in S)
            and list(P) == list(S) and Domain.fromdict({a: cfg[a] for a in S}).attrs == S and P.transpose(tuple(reversed(S))).attrs == tuple(reversed(S)))


def law_size_sort_eq_reach(sz: List[int], mask: List[bool], rot: int) -> bool:
    """
    pre: _ok_sizes(sz) and len(mask) == 4 and 0 <= rot <= 3
    post: False
    """
    return True

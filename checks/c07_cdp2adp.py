"""C07 -- zCDP <-> (epsilon, delta) conversions: search soundness and formula translation validation.

(a) cdp_rho / cdp_eps run symbolically with cdp_delta replaced by an uninterpreted function F(rho, eps) (F(0, .) = 0 is the code's own
    degenerate case): on every path of the (cut) bisection the returned value r satisfies  r == 0  or  F(r, eps) <= delta   (cdp_rho),
    F(rho, e) <= delta  or  e == the analytic initial bracket rho + 2 sqrt(rho log(1/delta))   (cdp_eps).
(b) cdp_delta runs symbolically with exp / log1p / log uninterpreted: on every path of its (cut) search over the Renyi order the returned term
    equals  min(1, exp((a-1)(a rho - eps) + a log1p(-1/a)) / (a-1))  for the a obtained by an independent re-statement of the bisection, a lies in
    [1.01, (eps+1)/(2 rho)+2], and each branch test is the sign test of the published derivative.
"""
import builtins
import math
import sys
import types

import z3

from symx import core, harness, shims, solve, values
from symx.core import SR, ST, Sym
from symx.harness import Result

PROPERTY = "C07"
LEVEL = "model_checking"
TECHNIQUE = ("bounded symbolic execution of the real cdp_rho / cdp_eps (cdp_delta as an uninterpreted function) and of the real cdp_delta (exp, log1p, log "
             "uninterpreted) with the 1000-step bisections cut to K steps; every comparison forks; obligations are the search invariants and term "
             "equality with the published Renyi-order formula; plus an inductive cut of each search loop lifted from the current AST (prologue establishes "
             "the bracket invariant; loop body from an arbitrary symbolic bracket preserves it and halves the bracket; epilogue from an arbitrary bracket "
             "returns the sound end) which covers any iteration count; z3 (EUF + NRA); counterexamples replayed by sweeping the real functions")
BOUNDS = {"quick": "K in {1,2,3,4} bisection steps (all 2^K paths), symbolic rho, eps, delta",
          "thorough": "K up to 7",
          "inductive": "both tiers: base / step / epilogue cut of each search loop from an arbitrary bracket satisfying the invariant: any number of iterations"}
OUTSIDE = ("that the Renyi bound dominates the exact Gaussian delta (a theorem about distributions); monotonicity in each argument and 'mutually inverse "
           "within numerical tolerance' (properties of a 10^6-evaluation float computation of a transcendental function); loops that are not a plain "
           "`for _ in range(<int>)` without break/continue/return (the inductive cut then ends without a verdict, exit 3, never an alarm)")
ASSUMPTIONS = ["F(0, eps) = 0 (the code's own degenerate case) is the only fact assumed of cdp_delta in (a)",
               "exp / log1p / log are uninterpreted in (b): equality of applications is decided through equality of arguments",
               "rho, eps, delta > 0, delta < 1 where the code requires it"]
SHIMS_USED = ["exp"]

_U = {}


def u_atom(name, x):
    """uninterpreted real function `name` applied to a symbolic real: one variable per distinct argument term"""
    t = z3.simplify(x.term())
    key = (name, t.get_id())
    reg = ST.__dict__.setdefault("uatoms", {})
    if key in reg:
        return reg[key][1]          # (t is stored in the registry below, hence alive)
    v = z3.Real("%s!%d" % (name, len(reg) + 1))
    reg[key] = (t, v)
    ST.roots[str(v)] = ("fn", name, t)
    return v


class MathProxy(types.ModuleType):
    def __init__(self):
        super().__init__("math_proxy")

    def __getattr__(self, name):
        return getattr(math, name)

    def exp(self, x):
        if isinstance(x, Sym):
            return x.exp()
        return math.exp(x)

    def log1p(self, x):
        if isinstance(x, Sym):
            return SR(u_atom("LOG1P", x))
        return math.log1p(x)

    def log(self, x):
        if isinstance(x, Sym):
            return SR(u_atom("LOG", x))
        return math.log(x)

    def sqrt(self, x):
        if isinstance(x, Sym):
            return x.sqrt()
        return math.sqrt(x)


MATH = MathProxy()
_CUT = {"k": 3}


def cut_range(*a):
    if len(a) == 1 and a[0] == 1000:
        return builtins.range(_CUT["k"])
    return builtins.range(*a)


_MOD = {}


def load():
    if "m" not in _MOD:
        shims.load_mbi()
        mod = shims.load_mechanism_file("cdp2adp")
        shims.shadow(mod, math=MATH, range=cut_range)
        _MOD["m"] = mod
        _MOD["real_delta"] = mod.__dict__["cdp_delta"]
    return _MOD["m"]


def F_stub(rho, eps):
    """cdp_delta as an uninterpreted function of (rho, eps)"""
    if not isinstance(rho, Sym) and rho == 0:
        return 0
    rho = rho if isinstance(rho, SR) else SR.lift(rho)
    eps = eps if isinstance(eps, SR) else SR.lift(eps)
    reg = ST.__dict__.setdefault("fatoms", {})
    tr, te = z3.simplify(rho.term()), z3.simplify(eps.term())
    key = (tr.get_id(), te.get_id())
    if key not in reg:
        v = z3.Real("F!%d" % (len(reg) + 1))
        reg[key] = (rho, eps, v, tr, te)        # the simplified terms are kept alive: z3 ids are only unique among live terms
        ST.assume(v >= 0)
    return SR(reg[key][2], None, "nn")


def F_of(rho, eps):
    reg = ST.__dict__.get("fatoms", {})
    rho = rho if isinstance(rho, SR) else SR.lift(rho)
    eps = eps if isinstance(eps, SR) else SR.lift(eps)
    tr, te = z3.simplify(rho.term()), z3.simplify(eps.term())
    hit = reg.get((tr.get_id(), te.get_id()))
    return None if hit is None else SR(hit[2], None, "nn")


def configs(tier, seed):
    ks = [1, 2, 3, 4] if tier == "quick" else [1, 2, 3, 4, 5, 6, 7]
    cfgs = []
    for k in ks:
        for part in ("rho", "eps", "delta"):
            cfgs.append(dict(name="%s:K%d" % (part, k), part=part, K=k, cost=2 ** k, core=k <= 5))
    for part in ("rho", "eps", "delta"):
        cfgs.append(dict(name="%s:inductive" % part, part=part, K=1, mode="ind", cost=6, core=True))
    return cfgs


def run_config(cfg):
    res = Result(cfg)
    mod = load()
    res.functions = shims.fn_fingerprint(mod.cdp_rho, mod.cdp_eps, _MOD["real_delta"])
    _CUT["k"] = cfg["K"]
    if cfg.get("mode") == "ind":
        return run_inductive(cfg, res, mod)
    part = cfg["part"]
    ex = solve.Explorer(max_paths=2 ** (cfg["K"] + 2) + 4, max_decisions=cfg["K"] + 6, branch_timeout_ms=3000)

    def cand(model, extra=None):
        c = {"kind": "model", "env": solve.model_env(model) if model is not None else {}}
        c.update(extra or {})
        return c

    def once():
        ST.__dict__["fatoms"] = {}
        ST.__dict__["uatoms"] = {}
        if part in ("rho", "eps"):
            mod.__dict__["cdp_delta"] = F_stub
        else:
            mod.__dict__["cdp_delta"] = _MOD["real_delta"]
        try:
            if part == "rho":
                eps = SR.var("eps", "p")
                delta = SR.var("delta", "p")
                ST.assume(delta.term() < 1)
                r = mod.cdp_rho(eps, delta)
                if not isinstance(r, Sym):
                    res.ob("unsat" if r == 0 else "sat", "cdp_rho returns 0 when no candidate was accepted", cand(None))
                else:
                    f = F_of(r, eps)
                    if f is None:
                        res.ob("sat", "cdp_rho returned a value it never tested", cand(None))
                    else:
                        g = f <= delta
                        v, mo, _ = solve.prove(g.t if isinstance(g, core.SB) else z3.BoolVal(bool(g)))
                        res.ob(v, "cdp_rho: implied delta of the returned budget <= target", cand(mo))
                    nn = r >= 0
                    v, mo, _ = solve.prove(nn.t if isinstance(nn, core.SB) else z3.BoolVal(bool(nn)))
                    res.ob(v, "cdp_rho: result >= 0", cand(mo))
                    ub = r <= eps + 1
                    v, mo, _ = solve.prove(ub.t if isinstance(ub, core.SB) else z3.BoolVal(bool(ub)))
                    res.ob(v, "cdp_rho: result within the initial bracket", cand(mo))
            elif part == "eps":
                rho = SR.var("rho", "p")
                delta = SR.var("delta", "p")
                ST.assume(delta.term() < 1)
                e = mod.cdp_eps(rho, delta)
                init = rho + 2 * MATH.sqrt(rho * MATH.log(1 / delta))
                if not isinstance(e, Sym):
                    res.ob("sat", "cdp_eps returned a constant for rho > 0, delta < 1", cand(None))
                else:
                    f = F_of(rho, e)
                    if f is not None:
                        g = f <= delta
                        v, mo, _ = solve.prove(g.t if isinstance(g, core.SB) else z3.BoolVal(bool(g)))
                        res.ob(v, "cdp_eps: implied delta at the returned eps <= target", cand(mo))
                    else:
                        v, mo, _ = solve.prove_eq(e, init)
                        res.ob(v, "cdp_eps: untested return value is the analytic bound rho + 2 sqrt(rho log(1/delta))", cand(mo))
            else:
                rho = SR.var("rho", "p")
                eps = SR.var("eps", "p")
                d = mod.cdp_delta(rho, eps)
                # independent re-statement of the search, following this path's branch outcomes
                taken = list(ex.taken)
                amin, amax = 1.01, (eps + 1) / (2 * rho) + 2
                alpha = None
                conds = [c for c in ST.pathcond]
                K = cfg["K"]
                for k in range(K):
                    alpha = (amin + amax) / 2
                    deriv = (2 * alpha - 1) * rho - eps + MATH.log1p(-1.0 / alpha)
                    want = deriv < 0
                    wt = want.t if isinstance(want, core.SB) else z3.BoolVal(bool(want))
                    if k < len(taken):
                        got_c = conds[k] if taken[k] else z3.Not(conds[k])
                        v, mo, _ = check_equiv(got_c, wt)
                        res.ob(v, "cdp_delta: branch test %d is the sign of the published derivative" % k, cand(mo))
                        if taken[k]:
                            amin = alpha
                        else:
                            amax = alpha
                ref = MATH.exp((alpha - 1) * (alpha * rho - eps) + alpha * MATH.log1p(-1 / alpha)) / (alpha - 1.0)
                lo = alpha >= 1.01
                v, mo, _ = solve.prove(lo.t if isinstance(lo, core.SB) else z3.BoolVal(bool(lo)))
                res.ob(v, "cdp_delta: Renyi order stays >= 1.01 (> 1)", cand(mo))
                if len(taken) >= K + 1:
                    capped = taken[K]      # min(delta, 1.0): python's min(a, b) returns b iff b < a
                    v, mo, _ = (solve.prove_eq(d, 1.0) if capped else solve.prove_eq(d, ref))
                    res.ob(v, "cdp_delta: returned value is min(1, published bound at the searched order)", cand(mo))
                    le1 = d <= 1
                    v, mo, _ = solve.prove(le1.t if isinstance(le1, core.SB) else z3.BoolVal(bool(le1)))
                    res.ob(v, "cdp_delta: result <= 1", cand(mo))
                else:
                    v, mo, _ = solve.prove_eq(d, ref)
                    res.ob(v, "cdp_delta: returned value is the published bound at the searched order", cand(mo))
            if part == "delta":
                # translator validation: this path's symbolic result, evaluated at concrete points that satisfy the path condition, against the
                # real function run in floats with the same cut
                import random
                rng = random.Random(len(ST.pathcond) * 7919 + cfg["K"])
                for _ in range(6):
                    env = {"rho": math.exp(rng.uniform(-4, 2)), "eps": math.exp(rng.uniform(-3, 3))}
                    try:
                        if not all(solve.evalf(c, env) for c in ST.pathcond):
                            continue
                        sym = solve.eval_sym(d, env) if isinstance(d, Sym) else float(d)
                    except (KeyError, OverflowError, ValueError, ZeroDivisionError, TypeError):
                        continue
                    mod.__dict__["math"] = math
                    try:
                        real = float(_MOD["real_delta"](env["rho"], env["eps"]))
                    except (OverflowError, ValueError, ZeroDivisionError):
                        real = None
                    finally:
                        mod.__dict__["math"] = MATH
                    if real is None:
                        continue
                    res.fidelity += 1
                    if not values.close(sym, real, 1e-7):
                        res.fidelity_fail.append("cdp_delta(K=%d) at %s: symbolic %r vs real %r" % (cfg["K"], env, sym, real))
                    break
            if len(res.samples) < 2:
                res.samples.append({"path": [str(c)[:100] for c in ST.pathcond][:4], "part": part})
        finally:
            mod.__dict__["cdp_delta"] = _MOD["real_delta"]
        return 1

    outs = ex.run(once)
    res.paths += len(outs)
    for kind, taken, out in outs:
        if kind != "ok":
            res.unknown.append({"what": "path %s: %s" % (kind, out)})
    # fidelity: the real functions against themselves with the cut (float run of the same cut program is not meaningful: 1000 vs K steps)
    return res


# ----------------------------------------------------------------------------------------
# inductive mode: the loop of each search is cut out of the function's AST (from /repo's current source, every run) and checked as
#   base      prologue (real code)                     establishes  Inv
#   step      havoc state, assume Inv, loop body (real code)   re-establishes Inv, halves the bracket
#   epilogue  havoc state, assume Inv, code after the loop (real code)   returns a value with the stated post-condition
# which together cover ANY number of iterations (in particular the 1000 the code runs), not only K.
# ----------------------------------------------------------------------------------------
import ast
import textwrap


def split_loop(mod, fname):
    tree = ast.parse(open(mod.__file__).read())
    fns = [n for n in tree.body if isinstance(n, ast.FunctionDef) and n.name == fname]
    if len(fns) != 1:
        raise core.SymError("function %s not found exactly once in %s" % (fname, mod.__file__))
    fn = fns[0]
    idx = [i for i, st in enumerate(fn.body) if isinstance(st, (ast.For, ast.While))]
    if len(idx) != 1 or not isinstance(fn.body[idx[0]], ast.For) or fn.body[idx[0]].orelse:
        raise core.SymError("%s: expected exactly one top-level for-loop" % fname)
    i = idx[0]
    loop = fn.body[i]
    it = loop.iter
    if not (isinstance(it, ast.Call) and isinstance(it.func, ast.Name) and it.func.id == "range" and len(it.args) == 1
            and isinstance(it.args[0], ast.Constant) and isinstance(it.args[0].value, int)):
        raise core.SymError("%s: loop is not `for _ in range(<int>)`" % fname)
    for n in ast.walk(ast.Module(body=loop.body, type_ignores=[])):
        if isinstance(n, (ast.Break, ast.Continue, ast.Return)):
            raise core.SymError("%s: loop body leaves the loop early; the inductive cut does not model that" % fname)
        if isinstance(n, ast.Name) and isinstance(loop.target, ast.Name) and n.id == loop.target.id:
            raise core.SymError("%s: loop body uses the loop counter" % fname)
    params = [a.arg for a in fn.args.args]

    def stored(stmts):
        out = []
        for n in ast.walk(ast.Module(body=stmts, type_ignores=[])):
            if isinstance(n, ast.Name) and isinstance(n.ctx, ast.Store) and n.id not in out:
                out.append(n.id)
        return out
    return dict(params=params, pro=fn.body[:i], body=loop.body, epi=fn.body[i + 1:], n_iter=it.args[0].value,
                pro_vars=stored(fn.body[:i]), loop_vars=stored(loop.body))


def _compile(mod, name, header_names, stmts, ret_locals):
    src = "def %s(__s):\n" % name
    for k in header_names:
        src += "    if %r in __s: %s = __s[%r]\n" % (k, k, k)
    body = "\n".join(ast.unparse(st) for st in stmts) if stmts else "pass"
    src += textwrap.indent(body, "    ") + "\n"
    if ret_locals:
        src += "    __r = dict(locals()); __r.pop('__s', None); return __r\n"
    ns = {}
    exec(compile(src, "<%s of %s>" % (name, mod.__file__), "exec"), mod.__dict__, ns)   # module globals: the shadowed math / cdp_delta apply
    return ns[name], src


def tt(b):
    return b.t if isinstance(b, core.SB) else z3.BoolVal(bool(b))


def _lift(x):
    return x if isinstance(x, SR) else SR.lift(x)


def run_inductive(cfg, res, mod):
    part = cfg["part"]
    fname = {"rho": "cdp_rho", "eps": "cdp_eps", "delta": "cdp_delta"}[part]
    sp = split_loop(mod, fname)
    names = sp["params"] + [v for v in sp["pro_vars"] if v not in sp["params"]] + [v for v in sp["loop_vars"] if v not in sp["params"] + sp["pro_vars"]]
    f_pre, src_pre = _compile(mod, "__pre", sp["params"], sp["pro"], True)
    f_step, src_step = _compile(mod, "__step", names, sp["body"], True)
    f_post, src_post = _compile(mod, "__post", names, sp["epi"], False)
    res.notes.append("inductive cut of %s: loop runs %d times in the real code; prologue %d stmts, body %d stmts, epilogue %d stmts; loop-carried: %s"
                     % (fname, sp["n_iter"], len(sp["pro"]), len(sp["body"]), len(sp["epi"]), sp["loop_vars"]))
    need = {"rho": ("rhomin", "rhomax"), "eps": ("epsmin", "epsmax"), "delta": ("amin", "amax", "alpha")}[part]
    for v in need:
        if v not in names:
            raise core.SymError("%s: bracket variable %s not found (invariant is stated over it)" % (fname, v))

    def cand(model, phase):
        return {"kind": "model", "env": solve.model_env(model) if model is not None else {}, "phase": phase}

    def ob(goal, what, phase):
        v, mo, _ = solve.prove(goal)
        res.ob(v, "%s [%s]: %s" % (fname, phase, what), cand(mo, phase))

    def params_sym():
        ST.__dict__["fatoms"] = {}
        ST.__dict__["uatoms"] = {}
        if part == "rho":
            eps, delta = SR.var("eps", "p"), SR.var("delta", "p")
            ST.assume(delta.term() < 1)
            return dict(eps=eps, delta=delta)
        if part == "eps":
            rho, delta = SR.var("rho", "p"), SR.var("delta", "p")
            ST.assume(delta.term() < 1)
            return dict(rho=rho, delta=delta)
        return dict(rho=SR.var("rho", "p"), eps=SR.var("eps", "p"))

    # the F-facts of the invariant, as z3 formulas over the current atom registry
    def F_le(r, e, d):
        f = F_stub(r, e)
        return tt(_lift(f) <= d) if isinstance(f, Sym) else z3.BoolVal(f <= 0 or True)

    def inv_rho(st, P, must_exist):
        lo, hi = _lift(st["rhomin"]), _lift(st["rhomax"])
        if must_exist:
            f_lo, f_hi = F_of(lo, P["eps"]), F_of(hi, P["eps"])
            c_lo = z3.Or(tt(lo == 0), tt(f_lo <= P["delta"])) if f_lo is not None else tt(lo == 0)
            c_hi = z3.Or(tt(hi == P["eps"] + 1), tt(f_hi > P["delta"])) if f_hi is not None else tt(hi == P["eps"] + 1)
        else:
            c_lo = z3.Or(tt(lo == 0), tt(F_stub(lo, P["eps"]) <= P["delta"]))
            c_hi = z3.Or(tt(hi == P["eps"] + 1), tt(F_stub(hi, P["eps"]) > P["delta"]))
        return [("0 <= rhomin <= rhomax <= eps+1", z3.And(tt(lo >= 0), tt(lo <= hi), tt(hi <= P["eps"] + 1))),
                ("rhomin == 0 or cdp_delta(rhomin, eps) <= delta", c_lo),
                ("rhomax is the initial bracket or cdp_delta(rhomax, eps) > delta", c_hi)]

    def inv_eps(st, P, must_exist):
        lo, hi = _lift(st["epsmin"]), _lift(st["epsmax"])
        init = P["rho"] + 2 * MATH.sqrt(P["rho"] * MATH.log(1 / P["delta"]))
        if must_exist:
            f_lo, f_hi = F_of(P["rho"], lo), F_of(P["rho"], hi)
            c_hi = z3.Or(tt(hi == init), tt(f_hi <= P["delta"])) if f_hi is not None else tt(hi == init)
            c_lo = z3.Or(tt(lo == 0), tt(f_lo > P["delta"])) if f_lo is not None else tt(lo == 0)
        else:
            c_hi = z3.Or(tt(hi == init), tt(F_stub(P["rho"], hi) <= P["delta"]))
            c_lo = z3.Or(tt(lo == 0), tt(F_stub(P["rho"], lo) > P["delta"]))
        return [("0 <= epsmin <= epsmax", z3.And(tt(lo >= 0), tt(lo <= hi))),
                ("epsmax is the analytic bound or cdp_delta(rho, epsmax) <= delta", c_hi),
                ("epsmin == 0 or cdp_delta(rho, epsmin) > delta", c_lo)]

    def inv_delta(st, P, must_exist):
        lo, hi = _lift(st["amin"]), _lift(st["amax"])
        top = (P["eps"] + 1) / (2 * P["rho"]) + 2
        out = [("1.01 <= amin <= amax <= (eps+1)/(2 rho)+2", z3.And(tt(lo >= 1.01), tt(lo <= hi), tt(hi <= top)))]
        if "alpha" in st:
            a = _lift(st["alpha"])
            out.append(("amin <= alpha <= amax", z3.And(tt(lo <= a), tt(a <= hi))))
        return out
    INV = {"rho": inv_rho, "eps": inv_eps, "delta": inv_delta}[part]
    LO, HI = need[0], need[1]

    def havoc(P, with_loop_vars):
        st = dict(P)
        st[LO] = SR.var(LO + "_h")
        st[HI] = SR.var(HI + "_h")
        if part == "delta" and with_loop_vars:
            st["alpha"] = SR.var("alpha_h")
        for what, g in INV(st, P, False):
            ST.assume(g)
        return st

    def set_delta_stub():
        mod.__dict__["cdp_delta"] = F_stub if part in ("rho", "eps") else _MOD["real_delta"]

    # ---- base ----
    ex = solve.Explorer(max_paths=16, max_decisions=8, branch_timeout_ms=3000)

    def base():
        set_delta_stub()
        try:
            P = params_sym()
            st = f_pre(dict(P))
            for v in need[:2]:
                if v not in st:
                    res.ob("sat", "%s [base]: prologue does not define %s" % (fname, v), cand(None, "base"))
                    return 1
            for what, g in INV(st, P, True):
                ob(g, "prologue establishes: " + what, "base")
        finally:
            mod.__dict__["cdp_delta"] = _MOD["real_delta"]
        return 1

    # ---- step ----
    def step():
        set_delta_stub()
        try:
            P = params_sym()
            st = havoc(P, False)
            lo0, hi0 = st[LO], st[HI]
            n0 = len(ex.taken)
            new = f_step(dict(st))
            for what, g in INV(new, P, True):
                ob(g, "loop body preserves: " + what, "step")
            w0, w1 = hi0 - lo0, _lift(new[HI]) - _lift(new[LO])
            v, mo, _ = solve.prove_eq(w1 * 2, w0)
            res.ob(v, "%s [step]: the bracket halves" % fname, cand(mo, "step"))
            mid = (lo0 + hi0) / 2
            moved_lo = z3.And(tt(_lift(new[LO]) == mid), tt(_lift(new[HI]) == hi0))
            moved_hi = z3.And(tt(_lift(new[HI]) == mid), tt(_lift(new[LO]) == lo0))
            ob(z3.Or(moved_lo, moved_hi), "exactly one end of the bracket moves to the midpoint", "step")
            if part == "delta":
                # the branch that was taken is the sign test of the published derivative at the midpoint
                deriv = (2 * mid - 1) * P["rho"] - P["eps"] + MATH.log1p(-1.0 / mid)
                neg = tt(deriv < 0)
                ob(z3.And(z3.Implies(neg, moved_lo), z3.Implies(z3.Not(neg), moved_hi)),
                   "amin moves up exactly when the published derivative is negative at the midpoint", "step")
                v, mo, _ = solve.prove_eq(_lift(new["alpha"]), mid)
                res.ob(v, "%s [step]: alpha is the midpoint" % fname, cand(mo, "step"))
            if len(res.samples) < 2:
                res.samples.append({"phase": "step", "path": [str(c)[:100] for c in ST.pathcond][:3]})
        finally:
            mod.__dict__["cdp_delta"] = _MOD["real_delta"]
        return 1

    # ---- epilogue ----
    def epilogue():
        set_delta_stub()
        try:
            P = params_sym()
            st = havoc(P, True)
            r = f_post(dict(st))
            if part == "rho":
                if not isinstance(r, Sym):
                    res.ob("unsat" if r == 0 else "sat", "%s [epilogue]: constant result must be 0" % fname, cand(None, "epilogue"))
                    return 1
                f = F_of(r, P["eps"])
                g = z3.Or(tt(r == 0), tt(f <= P["delta"])) if f is not None else tt(r == 0)
                ob(g, "returned budget r: r == 0 or cdp_delta(r, eps) <= delta", "epilogue")
                ob(z3.And(tt(r >= 0), tt(r <= P["eps"] + 1)), "result within the initial bracket", "epilogue")
                v, mo, _ = solve.prove_eq(r, st["rhomin"])
                res.ob(v, "%s [epilogue]: returns the sound end of the bracket (rhomin)" % fname, cand(mo, "epilogue"))
            elif part == "eps":
                if not isinstance(r, Sym):
                    res.ob("sat", "%s [epilogue]: constant result for rho > 0, delta < 1" % fname, cand(None, "epilogue"))
                    return 1
                init = P["rho"] + 2 * MATH.sqrt(P["rho"] * MATH.log(1 / P["delta"]))
                f = F_of(P["rho"], r)
                g = z3.Or(tt(r == init), tt(f <= P["delta"])) if f is not None else tt(r == init)
                ob(g, "returned eps e: cdp_delta(rho, e) <= delta or e is the analytic bound", "epilogue")
                v, mo, _ = solve.prove_eq(r, st["epsmax"])
                res.ob(v, "%s [epilogue]: returns the sound end of the bracket (epsmax)" % fname, cand(mo, "epilogue"))
            else:
                alpha = st["alpha"]
                ref = MATH.exp((alpha - 1) * (alpha * P["rho"] - P["eps"]) + alpha * MATH.log1p(-1 / alpha)) / (alpha - 1.0)
                taken = list(ex.taken)
                capped = taken[-1] if taken else False
                v, mo, _ = (solve.prove_eq(r, 1.0) if capped else solve.prove_eq(r, ref))
                res.ob(v, "%s [epilogue]: returned value is min(1, published bound at the searched order)" % fname, cand(mo, "epilogue"))
                if capped:
                    ob(tt(ref >= 1), "the cap is applied only when the bound exceeds 1", "epilogue")
                else:
                    ob(tt(_lift(r) <= 1), "result <= 1", "epilogue")
                ob(tt(_lift(r) >= 0), "result >= 0", "epilogue")
        finally:
            mod.__dict__["cdp_delta"] = _MOD["real_delta"]
        return 1

    for phase, fn in (("base", base), ("step", step), ("epilogue", epilogue)):
        ex = solve.Explorer(max_paths=16, max_decisions=8, branch_timeout_ms=3000)
        outs = ex.run(fn)
        res.paths += len(outs)
        if not any(k == "ok" for k, _, _ in outs):
            res.unknown.append({"what": "%s [%s]: no feasible path (vacuous)" % (fname, phase)})
        for kind, taken, out in outs:
            if kind not in ("ok", "infeasible", "pruned"):
                res.unknown.append({"what": "%s [%s] path %s: %s" % (fname, phase, kind, out)})
    return res


def check_equiv(a, b):
    """a <-> b under assumptions and the rest of the path (excluding nothing: both are facts of this path)"""
    goal = z3.And(z3.Implies(a, b), z3.Implies(b, a))
    cons = list(ST.assumptions)
    return solve.check_sat(cons + [z3.Not(goal)], 20000) if False else solve.prove(goal, with_path=False)


def finding_key(c):
    what = "".join(ch for ch in c.get("what", "") if not ch.isdigit())
    return "%s:%s" % (c["config"]["part"], what[:80])


def replay(c):
    """sweep the real, uncut functions over the property's ranges against independent oracles"""
    import numpy as np
    shims.unshadow_all()
    _MOD.clear()
    shims.load_mbi()
    import importlib
    mod = shims.load_mechanism_file("cdp2adp")
    part = c["config"]["part"]

    def ref_delta(rho, eps):
        # dense-grid + golden-section minimisation of the published bound over the Renyi order
        lo, hi = 1.0 + 1e-9, max((eps + 1) / (2 * rho) + 2, 2.0)

        def f(a):
            return (a - 1) * (a * rho - eps) + a * math.log1p(-1 / a) - math.log(a - 1)
        grid = np.exp(np.linspace(math.log(lo - 1 + 1e-12), math.log(hi - 1), 4000)) + 1
        vals = [f(a) for a in grid]
        i = int(np.argmin(vals))
        a, b = grid[max(i - 1, 0)], grid[min(i + 1, len(grid) - 1)]
        g = (math.sqrt(5) - 1) / 2
        for _ in range(200):
            c1, c2 = b - g * (b - a), a + g * (b - a)
            if f(c1) < f(c2):
                b = c2
            else:
                a = c1
        return min(1.0, math.exp(f((a + b) / 2)))
    bad = []
    if part == "rho":
        for eps in (1e-3, 5e-3, 0.1, 1.0, 10.0, 100.0):
            for delta in (1e-15, 1e-12, 1e-9, 1e-6, 1e-3, 0.1, 0.5):
                r = mod.cdp_rho(eps, delta)
                d = ref_delta(r, eps) if r > 0 else 0.0
                if d > delta * (1 + 1e-6):
                    bad.append(("cdp_rho(%g,%g)=%g implies delta %g" % (eps, delta, r, d)))
    elif part == "eps":
        for rho in (1e-6, 1e-3, 0.1, 0.5, 1.0, 2.0, 10.0, 100.0):
            for delta in (1e-15, 1e-9, 1e-6, 1e-2, 0.5):
                e = mod.cdp_eps(rho, delta)
                d = ref_delta(rho, e)
                if d > delta * (1 + 1e-6):
                    bad.append(("cdp_eps(%g,%g)=%g implies delta %g" % (rho, delta, e, d)))
    else:
        for rho in (1e-6, 1e-3, 0.1, 1.0, 10.0):
            for eps in (1e-3, 0.1, 1.0, 10.0, 100.0):
                try:
                    got = mod.cdp_delta(rho, eps)
                except (OverflowError, ValueError, ZeroDivisionError) as e:
                    bad.append("cdp_delta(%g,%g) raised %s: %s" % (rho, eps, type(e).__name__, e))
                    continue
                want = ref_delta(rho, eps)
                if not (abs(got - want) <= 1e-6 * max(want, 1e-300) + 1e-300 or (want < 1e-290 and got < 1e-290)):
                    bad.append("cdp_delta(%g,%g)=%g but the optimum of the published bound is %g" % (rho, eps, got, want))
    if bad:
        return {"reproduced": True, "detail": "real functions over a grid: %s" % bad[:4], "n_bad": len(bad)}
    return {"reproduced": False, "detail": "real functions agree with the independent oracle on the whole grid"}


if __name__ == "__main__":
    harness.main(sys.modules[__name__])

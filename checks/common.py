"""shared pieces of the graphical-model checks: structure catalogue, symbolic potentials, brute-force oracle"""
import itertools

import numpy as np

from symx import core, shims

_MBI = {}


def mbi_for(V):
    """the repo's mbi package; shims are installed (once per process) only for symbolic runs"""
    if V is True or getattr(V, "symbolic", False):
        if "m" not in _MBI:
            _MBI["m"] = shims.install_mbi_shims()
    return shims.load_mbi()


# ---- structure catalogue -----------------------------------------------------------------
CAT3 = {
    "chain": [("a", "b"), ("b", "c")],
    "chain_rev_attrs": [("b", "a"), ("c", "b")],
    "star": [("a", "b"), ("a", "c")],
    "star_mixed_order": [("c", "a"), ("a", "b")],
    "triangle": [("a", "b"), ("b", "c"), ("a", "c")],
    "disconnected": [("a",), ("b", "c")],
    "singletons": [("a",), ("b",), ("c",)],
    "nested": [("a", "b"), ("a",), ("b", "c"), ("b",)],
    "duplicated": [("a", "b"), ("a", "b"), ("c", "b"), ("b", "c")],
    "full": [("c", "a", "b")],
    "empty": [],
    "one_pair": [("c", "a")],
}
CAT4 = {
    "chain4": [("a", "b"), ("b", "c"), ("c", "d")],
    "chain4_scrambled": [("d", "c"), ("b", "a"), ("c", "b")],
    "star4": [("a", "b"), ("a", "c"), ("a", "d")],
    "cycle4": [("a", "b"), ("b", "c"), ("c", "d"), ("d", "a")],
    "two_triangles": [("a", "b", "c"), ("b", "c", "d")],
    "star_tail": [("b", "a"), ("b", "c"), ("c", "d")],
    "tri_plus_leaf": [("a", "b"), ("b", "c"), ("a", "c"), ("c", "d")],
    "pair_pair": [("a", "b"), ("c", "d")],
    "three_way_sep": [("a", "b", "c"), ("a", "b", "d")],
    "mid_first4": [("a", "b"), ("a", "c"), ("b", "d")],
    "sorted_not_rip": [("a", "c"), ("b", "d"), ("c", "d")],
}
CAT5 = {
    "chain5": [("a", "b"), ("b", "c"), ("c", "d"), ("d", "e")],
    "cycle5": [("a", "b"), ("b", "c"), ("c", "d"), ("d", "e"), ("e", "a")],
    "branch5": [("a", "b"), ("b", "c"), ("b", "d"), ("d", "e")],
    "mid_first": [("a", "b"), ("a", "c"), ("b", "d"), ("c", "e")],
}


def linear_extensions(messages, limit=None):
    """all orders of `messages` that respect: (k,i) precedes (i,j) for k != j  (computed from the list alone)"""
    msgs = list(messages)
    deps = {m: {m1 for m1 in msgs if m1[1] == m[0] and m1[0] != m[1]} for m in msgs}
    out = []

    def rec(done, order):
        if limit is not None and len(out) >= limit:
            return
        if len(order) == len(msgs):
            out.append(list(order))
            return
        for m in msgs:
            if m not in done and deps[m] <= done:
                done.add(m)
                order.append(m)
                rec(done, order)
                order.pop()
                done.discard(m)
    rec(set(), [])
    return out


def zero_cells(shape, mode, salt=0):
    """which cells of a potential are -inf.  mode: none | some | slice (a whole value of the last axis)"""
    idxs = list(np.ndindex(*shape))
    if mode == "none" or len(idxs) <= 1:
        return set()
    if mode == "some":
        return {idxs[(salt + 2 * i) % len(idxs)] for i in range(max(1, len(idxs) // 4))}
    if mode == "slice":
        if salt != 0:
            return set()        # one clique loses a whole slice: its messages carry -inf entries
        ax = len(shape) - 1
        if shape[ax] < 2:
            return set()
        v = salt % shape[ax]
        return {i for i in idxs if i[ax] == v}
    raise ValueError(mode)


def sym_potentials(V, mbi, dom, cliques, prefix="t", zmode="none", shift=True):
    """log-potentials with all-symbolic values for the model's (maximal) cliques.
    -> (CliqueVector handed to the code, tables {clique: {assignment-tuple: value}} *without* the shift constants)"""
    pots, tabs = {}, {}
    for k, cl in enumerate(cliques):
        d = dom.project(cl)
        zs = zero_cells(d.shape, zmode, salt=k)
        tab = {}

        def cell(idx, tab=tab, cl=cl, zs=zs):
            v = V.logv("%s_%s_%s" % (prefix, "".join(cl), "".join(map(str, idx))), zero=idx in zs)
            tab[idx] = v
            return v
        arr = V.array(d.shape, cell)
        f = mbi.Factor(d, arr)
        if shift:
            f = f + V.logv("k_%s" % "".join(cl))
        pots[cl] = f
        tabs[cl] = tab
    return mbi.CliqueVector(pots), tabs


class Joint:
    """brute-force oracle: the explicit joint  prod_cl exp(pot_cl)  over the whole domain, built from the tables"""

    def __init__(self, V, attrs, sizes, tabs):
        self.V = V
        self.attrs = tuple(attrs)
        self.sizes = tuple(sizes)
        self.cells = {}
        for x in itertools.product(*[range(n) for n in sizes]):
            assign = dict(zip(attrs, x))
            terms = [tab[tuple(assign[a] for a in cl)] for cl, tab in tabs.items()]
            if any(V.is_neginf(t) for t in terms):
                self.cells[x] = None           # log 0
            else:
                v = terms[0] if terms else (core.SL.one() if V.symbolic else 0.0)
                for t in terms[1:]:
                    v = v + t
                self.cells[x] = v
        live = [v for v in self.cells.values() if v is not None]
        self.logZ = V.lse(live) if live else None

    def marginal_log(self, attrs, idx):
        """log of unnormalised mass of the event attrs == idx (None if zero)"""
        pos = [self.attrs.index(a) for a in attrs]
        live = [v for x, v in self.cells.items() if v is not None and all(x[p] == i for p, i in zip(pos, idx))]
        return self.V.lse(live) if live else None

    def marginal(self, attrs, idx, total):
        m = self.marginal_log(attrs, idx)
        if m is None:
            return 0.0
        return self.V.exp(m - self.logZ) * total


def all_ordered_subsets(attrs, maxlen=None, minlen=0):
    out = []
    for r in range(minlen, (maxlen if maxlen is not None else len(attrs)) + 1):
        out.extend(itertools.permutations(attrs, r))
    return [tuple(x) for x in out]


def factor_cells(F):
    attrs = tuple(F.domain.attrs)
    if F.values.ndim == 0:
        yield (), F.values[()]
        return
    for idx in np.ndindex(*F.values.shape):
        yield idx, F.values[idx]

"""C18 -- approximate (local) estimation is valid.

(i)  control skeleton: LocalInference.mirror_descent_auto is executed on the REAL model object built by the real _setup for each marginal oracle,
     with the oracle's outputs and the loss trajectory havoc'd: at every iteration the loss may rise or fall (at most B rises per path), the post-loop
     feasibility test may pass or fail.  Every explored path must complete without an exception (an attribute the selected oracle does not define, a
     missing restart state, ...).
(ii) real oracles, iters = 1: y, sigma, total symbolic; every returned table is >= 0 and sums to the total, one table per model clique.
"""
import builtins
import sys

import numpy as np
import z3

from symx import core, harness, shims, solve, values
from symx.core import SR, ST
from symx.harness import Result
from . import common, estim

PROPERTY = "C18"
LEVEL = "model_checking"
TECHNIQUE = ("(i) symbolic path exploration of the real mirror_descent_auto control flow over a nondeterministic loss trajectory (each rise/fall and each "
             "feasibility outcome is a free Boolean decided by the explorer), on the real oracle objects; (ii) bounded symbolic execution of the real "
             "LocalInference.estimate with the real region-graph / factor-graph oracles, normalisation and non-negativity decided by z3")
BOUNDS = {
    "quick": "(i) oracles {approx, convex, pairwise}, iters 3 (<= 2 loss rises per path) and 55 (<= 1 rise, so that the t > 50 branch is reached), post-loop cut to 2 rounds; "
             "(ii) iters 1, two measurement families, sizes (2,2,2)",
    "thorough": "(i) iters 3 (<= 3 rises), 52 (<= 2 rises), 55 and 60 (<= 1 rise); (ii) three families, also iters 2 for 'approx'",
}
OUTSIDE = ("'fit no worse than the uniform start', the feasibility tolerance of the convex oracle and equality with exact estimation on disjoint cliques "
           "(limit / optimum statements); marginal_oracle='pairwise-convex' (cvxopt is not installed)")
ASSUMPTIONS = ["(i): the oracle returns some marginal vector and the loss is some real number at every call (havoc)", "real-number semantics in (ii)"]
SHIMS_USED = ["np.zeros/np.ones", "logsumexp", "exp", "float", "sparse @ object-array"]

_CUT = {"post": 2}


def cut_range(*a):
    if len(a) == 1 and a[0] == 1000:
        return builtins.range(_CUT["post"])
    return builtins.range(*a)


def prep_li(V):
    mbi = common.mbi_for(V)
    import mbi.local_inference as li
    if li.__dict__.get("range") is not cut_range:
        shims.shadow(li, _persist=True, range=cut_range, print=lambda *a, **k: None)
    return mbi, li


def configs(tier, seed):
    cfgs = []
    for oracle in ("approx", "convex", "pairwise"):
        for iters in ([3, 55] if tier == "quick" else [3, 52, 55, 60]):
            rises = (2 if iters <= 3 else 1) if tier == "quick" else (3 if iters <= 3 else (2 if iters == 52 else 1))
            cfgs.append(dict(name="skeleton:%s:iters%d" % (oracle, iters), kind="skeleton", oracle=oracle, iters=iters,
                             rises=rises, cost=iters, timeout=2400))
    fams = ["two_overlap", "oneway"] + (["disconnected"] if tier == "thorough" else [])
    for oracle in ("approx", "convex", "pairwise"):
        for fam in fams:
            if tier == "quick" and oracle == "convex" and fam == "two_overlap":
                continue          # cube-root counting numbers on overlapping regions: about a minute, thorough tier
            cfgs.append(dict(name="real:%s:%s:i1" % (oracle, fam), kind="real", oracle=oracle, fam=fam, iters=1, cost=10, timeout=900,
                             core=oracle != "convex"))
    for oracle in ("approx", "pairwise"):
        for fam in ("two_overlap", "nested_perm"):
            for metric in ("L2", "L1"):
                cfgs.append(dict(name="gradient:%s:%s:%s" % (oracle, fam, metric), kind="gradient", oracle=oracle, fam=fam, metric=metric, cost=3))
    if tier == "thorough":
        cfgs.append(dict(name="real:approx:two_overlap:i2", kind="real", oracle="approx", fam="two_overlap", iters=2, cost=40, timeout=1800, core=False))
    return cfgs


class Token:
    """a havoc'd marginal vector"""


def run_skeleton(cfg, res):
    V = values.SymVals()
    mbi, li = prep_li(V)
    attrs, sizes = ["a", "b", "c"], (2, 2, 2)
    rises_max = cfg["rises"]

    def once():
        dom = mbi.Domain(attrs, sizes)
        eng = mbi.LocalInference(dom, iters=cfg["iters"], marginal_oracle=cfg["oracle"])
        Vf = values.FloatVals()
        ms = estim.measurements(Vf, dom, estim.FAMS["two_overlap"], sparse_=True)
        eng._setup(ms, 10.0)
        model = eng.model
        state = {"rises": 0, "prev": 100.0, "calls": 0}
        ex = ST.explorer

        def havoc_bp(theta, callback=None):
            return Token()

        def havoc_loss(mu, metric=None):
            # the very first call only initialises l0; afterwards each call may rise above the previous loss or not
            k = state["calls"]
            state["calls"] += 1
            rise = False
            if k >= 2 and state["rises"] < rises_max:
                rise = ex.decide(z3.Bool("loss_rises!%d!%d" % (state["rises"], k)))
            if rise:
                state["rises"] += 1
                state["prev"] = state["prev"] + 1.0
            else:
                state["prev"] = state["prev"] - 0.5
            zero = mbi.CliqueVector({cl: mbi.Factor.zeros(dom.project(cl)) for cl in model.cliques})
            return state["prev"], zero

        def havoc_feas(mu):
            k = state.setdefault("feas", 0)
            state["feas"] = k + 1
            return 0.5 if ex.decide(z3.Bool("feasible!%d" % k)) else 2.0
        model.belief_propagation = havoc_bp
        model.primal_feasibility = havoc_feas
        eng._marginal_loss = havoc_loss
        try:
            l, theta, mu = eng.mirror_descent_auto(alpha=10.0, iters=cfg["iters"], callback=None)
            res.ob("unsat", "path completes")
            ok = isinstance(mu, Token) and set(theta.keys()) == set(model.cliques)
            res.ob("unsat" if ok else "sat", "returns the oracle's last output and parameters for every model clique", {"kind": "structural"})
        except values.REAL_EXC as e:
            import traceback
            tb = traceback.extract_tb(e.__traceback__)
            where = [f for f in tb if shims.REPO in f.filename]
            loc = "%s:%d" % (where[-1].filename.replace(shims.REPO + "/", ""), where[-1].lineno) if where else "?"
            res.ob("sat", "exception", {"kind": "exception", "exc": "%s: %s" % (type(e).__name__, e), "where": loc,
                                        "path": [str(c) for c in ST.pathcond][:10]})
        if len(res.samples) < 2:
            res.samples.append({"oracle": cfg["oracle"], "decisions": [str(c) for c in ST.pathcond][:6]})
        return 1
    ex = solve.Explorer(max_paths=20000, max_decisions=400, branch_timeout_ms=500)
    outs = ex.run(once)
    res.paths += len(outs)
    for kind, taken, out in outs:
        if kind != "ok":
            res.unknown.append({"what": "path %s: %s" % (kind, out)})


def real_scenario(cfg):
    attrs, sizes = ["a", "b", "c"], (2, 2, 2)

    def scenario(V):
        mbi, li = prep_li(V)
        dom = mbi.Domain(attrs, sizes)
        N = V.real("N", "p")
        ms = estim.measurements(V, dom, estim.FAMS[cfg["fam"]])
        eng = mbi.LocalInference(dom, iters=cfg["iters"], marginal_oracle=cfg["oracle"])
        model = eng.estimate(ms, total=N)
        T = []
        T.append(("tables for every measured clique", all(tuple(m[3]) in model.marginals for m in ms), True))
        for cl, F in model.marginals.items():
            T.append(("sum[%s]" % "".join(cl), F.sum(), N))
            for idx, g in common.factor_cells(F):
                T.append(("nonneg[%s]%s" % ("".join(cl), "".join(map(str, idx))), V.ge(g, 0), True))
        for m in ms:
            F = model.project(tuple(m[3]))
            T.append(("project(%s):sum" % ",".join(m[3]), F.sum(), N))
        return T
    return scenario


def gradient_scenario(cfg):
    """(iii) the local copy of the objective: its gradient is the derivative of its loss (ingredient of the exactness clause)"""
    attrs, sizes = ["a", "b", "c"], (2, 2, 2)

    def scenario(V):
        mbi, li = prep_li(V)
        dom = mbi.Domain(attrs, sizes)
        N = V.real("N", "p")
        fam = estim.FAMS[cfg["fam"]] + [estim.FAMS[cfg["fam"]][0]]        # the first clique is measured twice, with its own noise scale
        ms = estim.measurements(V, dom, fam, sparse_=False)
        eng = mbi.LocalInference(dom, iters=1, marginal_oracle=cfg["oracle"], metric=cfg["metric"])
        # the estimator object was used before, for other measurements: the objective of a call is about that call's measurements only
        eng._setup(estim.measurements(V, dom, estim.FAMS["oneway"], tag="old_", sparse_=False), N)
        eng._setup(ms, N)
        model = eng.model

        def vec(prefix):
            out = {}
            for cl in model.cliques:
                d = dom.project(cl)
                out[cl] = mbi.Factor(d, V.array(d.shape, lambda idx, cl=cl: V.real("%s%s_%s" % (prefix, "".join(cl), "".join(map(str, idx))))))
            return mbi.CliqueVector(out)
        m0, d = vec("u"), vec("d")
        T = []
        l0, g0 = eng._marginal_loss(m0)
        if cfg["metric"] == "L2":
            lp, _ = eng._marginal_loss(m0 + d)
            lm, _ = eng._marginal_loss(m0 - d)
            T.append(("gradient_is_derivative_of_loss", lp - lm, 2 * g0.dot(d)))
            # and the loss is the stated one: sum over the supplied measurements of 0.5*|(Q mu - y)/sigma|^2
            want = 0
            for Q, y, sg, proj in ms:
                cl = next(c for c in sorted(model.cliques, key=dom.size) if set(proj) <= set(c))
                x = m0[cl].project(proj).datavector()
                r = (np.asarray(Q, dtype=float) @ x - y) / sg if not V.symbolic else (Q @ x - y) * (1 / sg)
                want = want + 0.5 * (r @ r)
            T.append(("loss_is_stated_sum", l0, want))
        else:
            from collections import defaultdict
            groups = eng.groups
            k = 0
            for cl in list(groups.keys()):
                for m in groups[cl]:
                    g1 = defaultdict(list)
                    g1[cl] = [m]
                    eng.groups = g1
                    a0, ga = eng._marginal_loss(m0)
                    a1, _ = eng._marginal_loss(m0 + d)
                    T.append(("subgradient_inequality[m%d]" % k, V.ge(a1, a0 + ga.dot(d)), True))
                    k += 1
            eng.groups = groups
        return T
    return scenario


def run_config(cfg):
    res = Result(cfg)
    mbi = common.mbi_for(True)
    LI = mbi.LocalInference
    res.functions = shims.fn_fingerprint(LI.estimate, LI.mirror_descent, LI.mirror_descent_auto, LI._setup, LI._marginal_loss,
                                         mbi.RegionGraph.hazan_peng_shashua, mbi.RegionGraph.generalized_belief_propagation,
                                         mbi.RegionGraph.primal_feasibility, mbi.FactorGraph.loopy_belief_propagation,
                                         mbi.FactorGraph.primal_feasibility)
    if cfg["kind"] == "skeleton":
        run_skeleton(cfg, res)
    elif cfg["kind"] == "gradient":
        values.run_scenario(res, gradient_scenario(cfg), rng=harness.rng_for(cfg), timeout_ms=60000, max_paths=8)
    else:
        values.run_scenario(res, real_scenario(cfg), rng=harness.rng_for(cfg), timeout_ms=60000, max_paths=24, max_decisions=60)
    return res


def finding_key(c):
    cfg = c["config"]
    what = c.get("what", "").split("[")[0]
    if c.get("kind") == "exception":
        what = "exception:%s:%s" % (c.get("exc", "").split(":")[0], c.get("where", ""))
    return "%s:%s:%s" % (cfg["kind"], cfg["oracle"], what)


def replay(c):
    cfg = c["config"]
    if cfg["kind"] == "gradient":
        return values.replay_scenario(gradient_scenario(cfg), c, tol=1e-6)
    if cfg["kind"] != "skeleton":
        return values.replay_scenario(real_scenario(cfg), c, tol=1e-6)
    # the skeleton found a crashing control path: look for concrete inputs that drive the real estimator down such a path
    import random
    mbi = common.mbi_for(False)
    rng = random.Random(3)
    attrs, sizes = ["a", "b", "c"], (2, 3, 2)
    dom = mbi.Domain(attrs, sizes)
    tried = 0
    for trial in range(40):
        F = values.FloatVals(rng=rng)
        ms = []
        for k, proj in enumerate([("a", "b"), ("b", "c"), ("a", "c")]):
            n = dom.size(proj)
            y = np.array([rng.uniform(0, 30) for _ in range(n)])
            ms.append((np.eye(n), y, rng.choice([0.3, 1.0, 3.0]), proj))
        eng = mbi.LocalInference(dom, iters=120, marginal_oracle=cfg["oracle"])
        tried += 1
        try:
            eng.estimate(ms, total=rng.choice([20.0, 60.0, 120.0]))
        except values.REAL_EXC as e:
            return {"reproduced": True, "detail": "LocalInference(marginal_oracle=%r).estimate raised %s: %s on random input #%d (3 pairwise measurements, "
                                                  "domain (2,3,2), iters=120)" % (cfg["oracle"], type(e).__name__, e, trial)}
    return {"reproduced": False, "detail": "no exception on %d random inputs" % tried}


if __name__ == "__main__":
    harness.main(sys.modules[__name__])

"""C19 -- public-data reweighting yields valid weights.

The real PublicInference.estimate / entropic_mirror_descent run on a small concrete public dataset with y, sigma and the total symbolic
(iterations cut to K): one strictly positive weight per public record, summing to the given (or estimated) total, over the unchanged public
records; the optimised objective is the stated sum over ALL supplied measurements; repeated calls use the total of the current call.
"""
import builtins
import sys

import numpy as np

from symx import core, harness, shims, solve, values
from symx.harness import Result
from . import common, estim

PROPERTY = "C19"
LEVEL = "model_checking"
TECHNIQUE = ("bounded symbolic execution of the real PublicInference.estimate (mirror descent on record weights cut to K iterations, every acceptance test "
             "forks), contingency tables by definition; obligations: weight count, positivity, sum == total, objective == stated sum, per-call total; z3 NRA")
BOUNDS = {"quick": "3 public datasets (3-5 records incl. duplicates and records outside the measured support), 3 measurement families (incl. a clique "
                   "measured twice), K in {0,1,2} iterations, total given / omitted, 2-call histories",
          "thorough": "quick + K = 3 and domain sizes (2,3,2)"}
OUTSIDE = ("'never a worse fit than the uniformly weighted public data': the natural invariant loss <= loss0 is not inductive for the code as written "
           "(P is not refreshed after an accepted step), so the clause is left undecided rather than alarmed on; iterations beyond K")
ASSUMPTIONS = ["real-number semantics; exp abstracted as a positive function", "np.histogramdd replaced by its definition for symbolic weights",
               "public records are concrete; y, sigma, total symbolic", "lsmr by contract when the total is omitted"]
SHIMS_USED = ["np.zeros/np.ones", "logsumexp", "exp", "float", "np.histogramdd", "np.log(concrete)", "lsmr", "np.allclose", "1e-100 / nextafter(0,1) regularisers"]

_CUT = {"k": 1}


def cut_range(*a):
    if len(a) == 1 and a[0] == 250:
        return builtins.range(_CUT["k"])
    return builtins.range(*a)


PUBLIC = {
    "three": [(0, 0, 0), (1, 1, 0), (0, 1, 1)],
    "dups": [(0, 0, 0), (0, 0, 0), (1, 0, 1), (1, 1, 1)],
    "five": [(0, 0, 0), (1, 1, 0), (0, 1, 1), (1, 0, 1), (1, 1, 1)],
}
FAMS = {
    "two_overlap": [(("a", "b"), "I"), (("b", "c"), "I")],
    "twice": [(("a", "b"), "I"), (("a", "b"), "P"), (("c",), "I")],
    "oneway": [(("a",), "I"), (("c",), "T")],
    "partial": [(("a", "b"), "R"), (("c",), "I")],
}


def configs(tier, seed):
    cfgs = []
    ks = [0, 1, 2] + ([3] if tier == "thorough" else [])
    for pub in PUBLIC:
        for fam in FAMS:
            for k in ks:
                if tier == "quick" and k == 2 and (pub != "three" or fam == "twice"):
                    continue
                cfgs.append(dict(name="weights:%s:%s:K%d" % (pub, fam, k), kind="weights", pub=pub, fam=fam, K=k, total="given", cost=3 ** k,
                                 timeout=900, core=k <= 2))
            ko = 1 if (tier == "thorough" and fam != "twice") else 0
            cfgs.append(dict(name="weights:%s:%s:K%d:omitted" % (pub, fam, ko), kind="weights", pub=pub, fam=fam, K=ko, total="omitted", cost=4))
            cfgs.append(dict(name="objective:%s:%s" % (pub, fam), kind="objective", pub=pub, fam=fam, cost=1))
        cfgs.append(dict(name="history:%s" % pub, kind="history", pub=pub, K=0 if (tier == "quick" or pub != "three") else 1, cost=6,
                         timeout=1500, core=(tier == "quick" or pub != "three")))
    return cfgs


def prep(V):
    mbi = common.mbi_for(V)
    import mbi.public_inference as pi
    if pi.__dict__.get("range") is not cut_range:
        shims.shadow(pi, _persist=True, range=cut_range)
    if V.symbolic and pi.__dict__.get("lsmr") is not shims.lsmr_by_contract:
        shims.shadow(pi, lsmr=shims.lsmr_by_contract)
    return mbi, pi


def oracle_total(V, ms):
    """independent statement of the estimated total: inverse-variance weighted combination over the measurements whose query rows span
    the ones vector (exact rational pseudo-inverse), at least 1"""
    from .c09_total import exact_v, _max1
    num, den, usable = 0, 0, 0
    for Q, y, sg, proj in ms:
        v, ok = exact_v(np.asarray(Q, dtype=float))
        if not ok:
            continue
        usable += 1
        est = V.sum([v[i] * y[i] for i in range(len(v))])
        var = sg * sg * sum(x * x for x in v)
        num = num + est / var
        den = den + 1 / var
    if usable == 0:
        return 1
    return _max1(V, num / den)


def public(mbi, name):
    import pandas as pd
    recs = PUBLIC[name]
    df = pd.DataFrame(np.array(recs, dtype=int), columns=["a", "b", "c"])
    return mbi.Dataset(df, mbi.Domain(["a", "b", "c"], [2, 2, 2]))


def scenario_for(cfg):
    def weights_checks(V, T, tag, out, pub, N):
        w = out.weights
        T.append((tag + "one weight per public record", len(w), pub.records))
        T.append((tag + "sum(weights)==total", V.sum(list(w)), N))
        for i, x in enumerate(w):
            T.append(("%sweight[%d]>0" % (tag, i), V.ge(x, 0) if not V.symbolic else (x > 0), True))
        T.append((tag + "public records unchanged", str(out.df.values.tolist()), str([list(r) for r in PUBLIC[cfg["pub"]]])))

    def scenario(V):
        mbi, pi = prep(V)
        _CUT["k"] = cfg.get("K", 1)
        pub = public(mbi, cfg["pub"])
        dom = pub.domain
        T = []
        if cfg["kind"] == "weights":
            ms = estim.measurements(V, dom, FAMS[cfg["fam"]], sparse_=False)
            N = V.real("N", "p") if cfg["total"] == "given" else None
            eng = mbi.PublicInference(pub)
            out = eng.estimate(ms, total=N)
            if N is None:
                # two cheap obligations instead of one expensive one: the weights sum to what the code's estimator returns for these
                # measurements, and that value is the independently stated estimate
                N = pi.estimate_total(ms)
                T.append(("estimated total is the stated inverse-variance combination", N, oracle_total(V, ms)))
            weights_checks(V, T, "", out, pub, N)
        elif cfg["kind"] == "objective":
            ms = estim.measurements(V, dom, FAMS[cfg["fam"]], sparse_=False)
            eng = mbi.PublicInference(pub)
            eng.measurements = ms
            cliques = [m[3] for m in ms]
            w = V.array((pub.records,), lambda idx: V.real("w%d" % idx[0], "p"))
            est = mbi.Dataset(pub.df, dom, w)
            mu = mbi.CliqueVector.from_data(est, cliques)
            loss, grad = eng._marginal_loss(mu)
            want = 0
            for Q, y, sg, proj in ms:
                pos = [dom.attrs.index(a) for a in proj]
                shape = tuple(dom.shape[p] for p in pos)
                x = []
                for idx in np.ndindex(*shape):
                    x.append(V.sum([w[r] for r, rec in enumerate(PUBLIC[cfg["pub"]]) if all(rec[p] == i for p, i in zip(pos, idx))] or [0.0]))
                for r_ in range(Q.shape[0]):
                    res_ = (V.sum([float(Q[r_, j]) * x[j] for j in range(len(x))]) - y[r_]) / sg
                    want = want + 0.5 * res_ * res_
            T.append(("objective is the sum over all supplied measurements", loss, want))
        else:
            eng = mbi.PublicInference(pub)
            for k, fam in enumerate(["oneway", "two_overlap"]):
                ms = estim.measurements(V, dom, FAMS[fam], tag="c%d_" % k, sparse_=False)
                out = eng.estimate(ms, total=None)
                N = pi.estimate_total(ms)
                T.append(("call%d:estimated total is the stated inverse-variance combination" % k, N, oracle_total(V, ms)))
                weights_checks(V, T, "call%d:" % k, out, pub, N)
        return T
    return scenario


def run_config(cfg):
    res = Result(cfg)
    mbi = common.mbi_for(True)
    import mbi.public_inference as pi
    res.functions = shims.fn_fingerprint(pi.entropic_mirror_descent, pi.estimate_total, pi.PublicInference.estimate, pi.PublicInference._marginal_loss,
                                         mbi.Dataset.project, mbi.Dataset.datavector, mbi.CliqueVector.from_data)
    values.run_scenario(res, scenario_for(cfg), rng=harness.rng_for(cfg), timeout_ms=60000, max_paths=64, max_decisions=40)
    return res


def finding_key(c):
    what = "".join(ch for ch in c.get("what", "") if not ch.isdigit()).split("[")[0]
    if c.get("kind") in ("exception", "poison"):
        what = c.get("kind") + ":" + str(c.get("where", c.get("why", "")))[:70]
    return "%s:%s" % (c["config"]["kind"], what)


def replay(c):
    return values.replay_scenario(scenario_for(c["config"]), c, tol=1e-6)


if __name__ == "__main__":
    harness.main(sys.modules[__name__])

"""shared machinery of C08 / C10 / C13: driving the real FactoredInference.estimate on symbolic inputs"""
import builtins

import numpy as np

from symx import core, shims, values
from symx.core import SR
from . import common

# measurement families over attributes a,b,c : list of (proj, query kind)
FAMS = {
    "two_overlap": [(("a", "b"), "I"), (("b", "c"), "I")],
    "oneway": [(("a",), "I"), (("b",), "I"), (("c",), "I")],
    "nested_perm": [(("b", "a"), "I"), (("a",), "P")],
    "triangle": [(("a", "b"), "I"), (("b", "c"), "T"), (("c", "a"), "I")],
    "disconnected": [(("a",), "I"), (("c", "b"), "I")],
    "single": [(("b",), "P")],
    "single_I": [(("b",), "I")],
    "pair_P": [(("a", "b"), "P")],
    "pair_I": [(("a", "b"), "I")],
    "empty": [],
}


def qmat(kind, n):
    if kind == "I":
        return np.eye(n)
    if kind == "P":
        return np.tril(np.ones((n, n)))
    if kind == "T":
        return np.ones((1, n))
    if kind == "R":      # counts only the first cell (twice): the ones vector is not in its row space
        return np.array([[1.0] + [0.0] * (n - 1), [2.0] + [0.0] * (n - 1)])
    raise ValueError(kind)


def measurements(V, dom, fam, tag="", sparse_=True):
    from scipy import sparse
    ms = []
    for k, (proj, kind) in enumerate(fam):
        n = dom.size(proj)
        Q = qmat(kind, n)
        y = V.array((Q.shape[0],), lambda idx, k=k: V.real("%sy%d_%d" % (tag, k, idx[0])))
        sg = V.real("%ssg%d" % (tag, k), "p")
        ms.append((sparse.csr_matrix(Q) if sparse_ else Q, y, sg, tuple(proj)))
    return ms


_RANGE_CUT = {"k": None}


def cut_range(*a):
    """stands in for `range` inside mbi.inference: the 25-step Armijo loop is unrolled to K steps (stated bound)"""
    if len(a) == 1 and a[0] == 25 and _RANGE_CUT["k"] is not None:
        return builtins.range(_RANGE_CUT["k"])
    return builtins.range(*a)


def prepare_inference(V, line_search_cut=None):
    """install the extra shims the estimator needs; the loop cut and the silenced print hold for float runs too"""
    mbi = common.mbi_for(V)
    import mbi.inference as inf
    if inf.__dict__.get("range") is not cut_range:
        shims.shadow(inf, _persist=True, range=cut_range, print=_quiet)
    _RANGE_CUT["k"] = line_search_cut
    if V.symbolic and inf.__dict__.get("lsmr") is not shims.lsmr_by_contract:
        shims.shadow(inf, lsmr=shims.lsmr_by_contract, eigsh=shims.eigsh_by_contract)
    return mbi


def _quiet(*a, **k):
    pass


def solver_options(V, solver):
    """(engine name, options dict) -- options are fresh dicts on every call"""
    if solver == "MD_step":
        return "MD", {"stepsize": V.real("alpha", "p")}
    if solver == "MD_ls":
        return "MD", {}
    if solver == "RDA":
        return "RDA", {}
    if solver == "RDA_L":
        return "RDA", {"lipschitz": 2.0}
    if solver == "IG":
        return "IG", {"lipschitz": 2.0}
    if solver == "IG_symL":
        return "IG", {}
    raise ValueError(solver)


def model_answers(V, T, model, dom, attrs, N, tag, tuples=None):
    """validity obligations on a returned model: sync of the two representations, non-negativity, normalisation, agreement"""
    if hasattr(model, "marginals"):
        bp = model.belief_propagation(model.potentials)
        T.append((tag + "marginal_keys", tuple(sorted(model.marginals.keys())), tuple(sorted(model.cliques))))
        for cl in model.cliques:
            if cl in model.marginals:
                for idx, g in common.factor_cells(model.marginals[cl]):
                    T.append(("%sstored_marginals_match_parameters[%s]%s" % (tag, "".join(cl), "".join(map(str, idx))), g, bp[cl].values[idx]))
    T.append((tag + "total", model.total, N))
    tuples = tuples or [("a",), ("b",), ("c",), ("a", "b"), ("b", "a"), ("b", "c"), ("a", "c"), ("c", "a"), ("a", "b", "c"), ("c", "a", "b")]
    ans = {}
    for S in tuples:
        F = model.project(S)
        T.append(("%sproject(%s):order" % (tag, ",".join(S)), tuple(F.domain.attrs), tuple(S)))
        ans[S] = F
        s = F.sum()
        T.append(("%sproject(%s):sums_to_total" % (tag, ",".join(S)), s, N))
        for idx, g in common.factor_cells(F):
            T.append(("%sproject(%s):nonneg%s" % (tag, ",".join(S), "".join(map(str, idx))), V.ge(g, 0), True))
    # agreement on shared attributes: every answer is the corresponding marginal of the answer for the full attribute tuple
    # (pairwise agreement follows; that every query path reads one joint is C02's subject)
    full_t = tuple(attrs)
    full = ans.get(full_t) or model.project(full_t)
    for S, F in ans.items():
        if S == full_t:
            continue
        ref = full.project(S)
        for idx, g in common.factor_cells(F):
            T.append(("%sagree[%s|full]%s" % (tag, ",".join(S), "".join(map(str, idx))), g, ref.values[idx]))
    return ans

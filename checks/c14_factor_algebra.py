"""C14 -- Factor algebra is addressed by attribute name, never by position.

Every public operation of mbi.Factor / mbi.CliqueVector is executed on factors whose *values are all symbolic*
(reals for linear ops, log-space values incl. -inf lanes for log ops) and whose attribute tuples range over every
ordered subset of the attribute universe.  The oracle indexes operands by assignment dictionaries only.
"""
import itertools
import sys

import numpy as np

from symx import core, harness, shims, solve, values
from symx.harness import Result

PROPERTY = "C14"
LEVEL = "model_checking"
TECHNIQUE = ("bounded symbolic execution of the real Factor/CliqueVector methods on numpy object arrays of z3 terms; "
             "each result cell is an NRA identity against a point-wise, name-indexed oracle, decided by z3 "
             "(rewriter-first, then nlsat); counterexamples replayed on the unshimmed code in floats")
BOUNDS = {
    "quick": "universe {a,b,c}, sizes (2,3,2); all ordered non-empty attribute tuples for each operand (15 x 15 pairs), "
             "all sub-tuples/orderings for unary ops; CliqueVector over 4 clique families",
    "thorough": "quick + sizes (1,2,3) and (2,2,2) + universe {a,b,c,d} sizes (2,1,2,3) with operand tuples of length <= 3",
}
OUTSIDE = ("float rounding; scipy's stabilised logsumexp; Factor.log's +1e-100 (checked at 0); torch backend; "
           "log-space subtraction with a -inf subtrahend (that semantics belongs to C01)")
ASSUMPTIONS = ["real-number semantics", "attribute sizes and tuples are enumerated configuration, values are symbolic",
               "division operands are either literal 0 or strictly positive symbols (the zero pattern is configuration)"]
SHIMS_USED = ["np.zeros/np.ones", "logsumexp", "np.logaddexp", "1e-100 / nextafter(0,1) regularisers", "exp"]


def ordered_subsets(univ, maxlen=None, minlen=1):
    out = []
    for r in range(minlen, (maxlen or len(univ)) + 1):
        for comb in itertools.permutations(univ, r):
            out.append(tuple(comb))
    return out


def configs(tier, seed):
    cfgs = []
    setups = [("abc", (2, 3, 2))]
    if tier == "thorough":
        setups += [("abc", (1, 2, 3)), ("abc", (2, 2, 2))]
    for univ, sizes in setups:
        subs = ordered_subsets(univ)
        for A in subs:
            cfgs.append(dict(name="unary:%s:%s:%s" % (univ, sizes, "".join(A)), kind="unary", univ=univ, sizes=sizes, A=A))
            for B in subs:
                cfgs.append(dict(name="binary:%s:%s:%s:%s" % (univ, sizes, "".join(A), "".join(B)), kind="binary",
                                 univ=univ, sizes=sizes, A=A, B=B))
    if tier == "thorough":
        univ, sizes = "abcd", (2, 1, 2, 3)
        subs = ordered_subsets(univ, maxlen=3)
        for A in subs + ordered_subsets(univ, minlen=4)[::3]:
            cfgs.append(dict(name="unary:%s:%s:%s" % (univ, sizes, "".join(A)), kind="unary", univ=univ, sizes=sizes, A=A))
        for A in subs[::2]:
            for B in subs[1::3]:
                cfgs.append(dict(name="binary:%s:%s:%s:%s" % (univ, sizes, "".join(A), "".join(B)), kind="binary",
                                 univ=univ, sizes=sizes, A=A, B=B))
    fams = [
        [("a", "b"), ("b", "c")],
        [("b", "a"), ("c",), ("a", "c")],
        [("a", "b", "c")],
        [("c", "a"), ("b",)],
    ]
    for i, fam in enumerate(fams):
        cfgs.append(dict(name="cliquevector:%d" % i, kind="cv", univ="abc", sizes=(2, 3, 2), fam=fam))
    return cfgs


_MBI = {}


def _mbi(sym):
    if sym and "m" not in _MBI:
        _MBI["m"] = shims.install_mbi_shims()
    return shims.load_mbi()


def mk(V, mbi, dom, attrs, prefix, kind, zeros=()):
    """-> (Factor, table: assignment tuple (in `attrs` order) -> value).  The table is the oracle's view."""
    d = dom.project(attrs)
    tab = {}

    def cell(idx):
        nm = "%s_%s" % (prefix, "".join(map(str, idx)))
        if kind == "real":
            v = V.real(nm)
        elif kind == "pos":
            v = 0.0 if idx in zeros else V.real(nm, "p")
        else:
            v = V.logv(nm, zero=idx in zeros)
        tab[idx] = v
        return v
    arr = V.array(d.shape, cell)
    return mbi.Factor(d, arr), tab


def at(tab, attrs, assign):
    return tab[tuple(assign[a] for a in attrs)]


def cells(F):
    """iterate (assignment dict, value) of a result factor, by its own published domain"""
    attrs = F.domain.attrs
    for idx in np.ndindex(*F.values.shape) if F.values.ndim else [()]:
        yield dict(zip(attrs, idx)), F.values[idx]


def compare(triples, label, F, want_attrs_set, dom, fn, exact_order=None):
    attrs = tuple(F.domain.attrs)
    shape_ok = tuple(F.values.shape) == tuple(dom.config[a] for a in attrs) and tuple(F.domain.shape) == tuple(F.values.shape)
    triples.append((label + ":attrs", (tuple(sorted(attrs)), shape_ok), (tuple(sorted(want_attrs_set)), True)))
    if exact_order is not None:
        triples.append((label + ":order", attrs, tuple(exact_order)))
    if set(attrs) != set(want_attrs_set) or not shape_ok:
        return
    for assign, got in cells(F):
        triples.append(("%s@%s" % (label, "".join("%s%d" % kv for kv in sorted(assign.items()))), got, fn(assign)))


def zero_pattern(shape, k):
    idxs = list(np.ndindex(*shape))
    return {idxs[(3 * i + k) % len(idxs)] for i in range(max(1, len(idxs) // 3))} if len(idxs) > 1 else set()


def binary_scenario(cfg):
    univ, sizes, A, B = cfg["univ"], tuple(cfg["sizes"]), tuple(cfg["A"]), tuple(cfg["B"])

    def scenario(V):
        mbi = _mbi(V.symbolic)
        dom = mbi.Domain(list(univ), sizes)
        U = set(A) | set(B)
        T = []
        fa, ta = mk(V, mbi, dom, A, "x", "real")
        fb, tb = mk(V, mbi, dom, B, "y", "real")
        za = zero_pattern(dom.project(A).shape, 0)
        la, tla = mk(V, mbi, dom, A, "u", "log", zeros=za)
        lb, tlb = mk(V, mbi, dom, B, "w", "log")
        lbz, tlbz = mk(V, mbi, dom, B, "wz", "log", zeros=zero_pattern(dom.project(B).shape, 1))
        compare(T, "add", fa + fb, U, dom, lambda s: at(ta, A, s) + at(tb, B, s))
        compare(T, "sub", fa - fb, U, dom, lambda s: at(ta, A, s) - at(tb, B, s))
        compare(T, "mul", fa * fb, U, dom, lambda s: at(ta, A, s) * at(tb, B, s))
        compare(T, "logadd", la + lbz, U, dom, lambda s: at(tla, A, s) + at(tlbz, B, s))
        compare(T, "logsub", la - lb, U, dom, lambda s: at(tla, A, s) - at(tlb, B, s))
        compare(T, "logaddexp", la.logaddexp(lbz), U, dom, lambda s: V.lse([at(tla, A, s), at(tlbz, B, s)]))
        # scalars
        s = V.real("s")
        sp = V.real("sp", "p")
        compare(T, "add_scalar", fa + s, set(A), dom, lambda q: at(ta, A, q) + s)
        compare(T, "radd_scalar", s + fa, set(A), dom, lambda q: s + at(ta, A, q))
        compare(T, "sub_scalar", fa - s, set(A), dom, lambda q: at(ta, A, q) - s)
        compare(T, "mul_scalar", fa * s, set(A), dom, lambda q: at(ta, A, q) * s)
        compare(T, "rmul_scalar", s * fa, set(A), dom, lambda q: s * at(ta, A, q))
        compare(T, "div_scalar", fa / sp, set(A), dom, lambda q: at(ta, A, q) / sp)
        if set(B) <= set(A):
            zb = zero_pattern(dom.project(B).shape, 2)
            pb, tpb = mk(V, mbi, dom, B, "d", "pos", zeros=zb)
            compare(T, "div", fa / pb, set(A), dom,
                    lambda q: (at(ta, A, q) / at(tpb, B, q)) if tuple(q[a] for a in B) not in zb else 0.0)
            c = fa.copy()
            c += fb
            compare(T, "iadd", c, set(A), dom, lambda q: at(ta, A, q) + at(tb, B, q), exact_order=A)
            compare(T, "iadd_leaves_original", fa, set(A), dom, lambda q: at(ta, A, q), exact_order=A)
            c2 = fa.copy()
            c2 *= fb
            compare(T, "imul", c2, set(A), dom, lambda q: at(ta, A, q) * at(tb, B, q), exact_order=A)
            c3 = la.copy()
            c3 += lbz
            compare(T, "iadd_log", c3, set(A), dom, lambda q: at(tla, A, q) + at(tlbz, B, q), exact_order=A)
        c4 = fa.copy()
        c4 += s
        compare(T, "iadd_scalar", c4, set(A), dom, lambda q: at(ta, A, q) + s, exact_order=A)
        c5 = fa.copy()
        c5 *= s
        compare(T, "imul_scalar", c5, set(A), dom, lambda q: at(ta, A, q) * s, exact_order=A)
        return T
    return scenario


def unary_scenario(cfg, with_max):
    univ, sizes, A = cfg["univ"], tuple(cfg["sizes"]), tuple(cfg["A"])

    def scenario(V):
        mbi = _mbi(V.symbolic)
        dom = mbi.Domain(list(univ), sizes)
        T = []
        if with_max:
            fa, ta = mk(V, mbi, dom, A, "x", "real")
            for S in ordered_subsets(A):
                rest = [a for a in A if a not in S]
                R = fa.max(S)
                attrs = tuple(R.domain.attrs)
                T.append(("max%s:attrs" % "".join(S), tuple(sorted(attrs)), tuple(sorted(rest))))
                for assign, got in cells(R):
                    grp = [v for idx, v in ta.items() if all(dict(zip(A, idx))[a] == assign[a] for a in rest)]
                    # got >= every member, and got equals some member
                    T.append(("max%s@%s:ubound" % ("".join(S), assign), all_of([got >= v for v in grp]), True))
                    T.append(("max%s@%s:attained" % ("".join(S), assign), any_of([got == v for v in grp]), True))
            m = fa.max()
            T.append(("max_all:ubound", all_of([m >= v for v in ta.values()]), True))
            T.append(("max_all:attained", any_of([m == v for v in ta.values()]), True))
            return T
        fa, ta = mk(V, mbi, dom, A, "x", "real")
        za = zero_pattern(dom.project(A).shape, 0)
        la, tla = mk(V, mbi, dom, A, "u", "log", zeros=za)
        pa, tpa = mk(V, mbi, dom, A, "p", "pos")

        def group(tab, rest, assign):
            return [v for idx, v in tab.items() if all(dict(zip(A, idx))[a] == assign[a] for a in rest)]
        for S in ordered_subsets(A):
            rest = [a for a in A if a not in S]
            compare(T, "sum" + "".join(S), fa.sum(S), set(rest), dom, lambda q: V.sum(group(ta, rest, q)))
            compare(T, "lse" + "".join(S), la.logsumexp(S), set(rest), dom, lambda q: V.lse(group(tla, rest, q)))
            # project keeps the requested order
            compare(T, "project" + "".join(S), fa.project(S), set(S), dom,
                    lambda q, S=S: V.sum(group(ta, S, q)), exact_order=S)
            compare(T, "projectlist" + "".join(S), fa.project(list(S)), set(S), dom,
                    lambda q, S=S: V.sum(group(ta, S, q)), exact_order=S)
            compare(T, "project_lse" + "".join(S), la.project(S, agg="logsumexp"), set(S), dom,
                    lambda q, S=S: V.lse(group(tla, S, q)), exact_order=S)
            if len(S) == 1:
                compare(T, "project_str" + S[0], fa.project(S[0]), set(S), dom,
                        lambda q, S=S: V.sum(group(ta, S, q)), exact_order=S)
        T.append(("sum_all", fa.sum(), V.sum(list(ta.values()))))
        T.append(("lse_all", la.logsumexp(), V.lse(list(tla.values()))))
        for P in itertools.permutations(A):
            compare(T, "transpose" + "".join(P), fa.transpose(P), set(A), dom, lambda q: at(ta, A, q), exact_order=P)
        # expand onto every ordered superset inside the universe
        others = [u for u in univ if u not in A]
        for extra in [()] + ordered_subsets(others) if others else [()]:
            for pos in range(len(A) + 1):
                tgt = tuple(A[:pos]) + tuple(extra) + tuple(A[pos:])
                compare(T, "expand" + "".join(tgt), fa.expand(dom.project(tgt)), set(tgt), dom,
                        lambda q: at(ta, A, q), exact_order=tgt)
            if len(A) > 1:
                tgt = tuple(reversed(A)) + tuple(extra)
                compare(T, "expand" + "".join(tgt), fa.expand(dom.project(tgt)), set(tgt), dom,
                        lambda q: at(ta, A, q), exact_order=tgt)
        # conditioning: evidence dictionaries in several key orders, with a key the factor does not have
        for S in ordered_subsets(A):
            rest = [a for a in A if a not in S]
            for shift in (0, 1):
                ev = {}
                for k, a in enumerate(S):
                    ev[a] = (k + shift) % dom.config[a]
                if others and shift:
                    ev = dict([(others[0], 0)] + list(ev.items()))
                compare(T, "condition%s" % ev, fa.condition(ev), set(rest), dom,
                        lambda q, ev=ev: at(ta, A, {**q, **ev}))
        compare(T, "exp", la.exp(), set(A), dom, lambda q: V.exp(at(tla, A, q)), exact_order=A)
        compare(T, "log", pa.log(), set(A), dom, lambda q: V.log(at(tpa, A, q)), exact_order=A)
        cp = fa.copy()
        cp += 1.0
        compare(T, "copy_independent", fa, set(A), dom, lambda q: at(ta, A, q), exact_order=A)
        compare(T, "copy_value", cp, set(A), dom, lambda q: at(ta, A, q) + 1.0, exact_order=A)
        dv = fa.datavector()
        flat = [ta[idx] for idx in np.ndindex(*dom.project(A).shape)]
        T.append(("datavector:len", len(dv), len(flat)))
        for i, (g, w) in enumerate(zip(dv, flat)):
            T.append(("datavector[%d]" % i, g, w))
        # constructors
        d = dom.project(A)
        T.append(("zeros", tuple(float(x) for x in mbi.Factor.zeros(d).values.flat), tuple(0.0 for _ in range(d.size()))))
        T.append(("ones", tuple(float(x) for x in mbi.Factor.ones(d).values.flat), tuple(1.0 for _ in range(d.size()))))
        T.append(("uniform", tuple(float(x) for x in mbi.Factor.uniform(d).values.flat),
                  tuple(1.0 / d.size() for _ in range(d.size()))))
        zs = sorted(zero_pattern(d.shape, 1))
        if zs:
            act = mbi.Factor.active(d, zs)
            T.append(("active", tuple(float(act.values[idx]) for idx in np.ndindex(*d.shape)),
                      tuple(-np.inf if idx in zs else 0.0 for idx in np.ndindex(*d.shape))))
        return T
    return scenario


def cv_scenario(cfg):
    univ, sizes, fam = cfg["univ"], tuple(cfg["sizes"]), [tuple(c) for c in cfg["fam"]]

    def scenario(V):
        mbi = _mbi(V.symbolic)
        dom = mbi.Domain(list(univ), sizes)
        T = []
        f1, t1, f2, t2, l1, tl1 = {}, {}, {}, {}, {}, {}
        for cl in fam:
            f1[cl], t1[cl] = mk(V, mbi, dom, cl, "x" + "".join(cl), "real")
            f2[cl], t2[cl] = mk(V, mbi, dom, cl, "y" + "".join(cl), "real")
            l1[cl], tl1[cl] = mk(V, mbi, dom, cl, "u" + "".join(cl), "log", zeros=zero_pattern(dom.project(cl).shape, 0))
        c1, c2, cl1 = mbi.CliqueVector(f1), mbi.CliqueVector(f2), mbi.CliqueVector(l1)
        k = V.real("k")

        def each(label, R, fn):
            T.append((label + ":keys", tuple(sorted(R.keys())), tuple(sorted(fam))))
            for cl in fam:
                if cl in R:
                    compare(T, "%s[%s]" % (label, "".join(cl)), R[cl], set(cl), dom, lambda q, cl=cl: fn(cl, q))
        each("add", c1 + c2, lambda cl, q: at(t1[cl], cl, q) + at(t2[cl], cl, q))
        each("sub", c1 - c2, lambda cl, q: at(t1[cl], cl, q) - at(t2[cl], cl, q))
        each("mul_const", c1 * k, lambda cl, q: at(t1[cl], cl, q) * k)
        each("rmul_const", 3 * c1, lambda cl, q: 3 * at(t1[cl], cl, q))
        each("add_scalar", c1 + k, lambda cl, q: at(t1[cl], cl, q) + k)
        each("exp", cl1.exp(), lambda cl, q: V.exp(at(tl1[cl], cl, q)))
        dot = c1.dot(c2)
        T.append(("dot", dot, V.sum([t1[cl][i] * t2[cl][i] for cl in fam for i in t1[cl]])))
        T.append(("size", c1.size(), sum(dom.size(cl) for cl in fam)))
        # combine: every factor of `other` whose attributes fit inside some clique is added exactly once, by name
        other = {}
        tabs = {}
        subs = []
        for cl in fam:
            if len(cl) >= 2:
                subs.append(tuple(reversed(cl)))          # same attributes, other order
            subs.append((cl[-1],))
        subs.append(tuple(univ))                              # fits only if a clique covers the universe
        seen = []
        for sc in subs:
            if sc not in seen:
                seen.append(sc)
        for sc in seen:
            other[sc], tabs[sc] = mk(V, mbi, dom, sc, "o" + "".join(sc), "real")
        tgt = mbi.CliqueVector({cl: f1[cl].copy() for cl in fam})
        tgt.combine(mbi.CliqueVector(other))
        fits = [sc for sc in seen if any(set(sc) <= set(cl) for cl in fam)]
        full = tuple(univ)
        for assign_idx in np.ndindex(*sizes):
            q = dict(zip(full, assign_idx))
            got = V.sum([at_factor(tgt[cl], q) for cl in fam])
            want = V.sum([at(t1[cl], cl, q) for cl in fam] + [at(tabs[sc], sc, q) for sc in fits])
            T.append(("combine@%s" % (assign_idx,), got, want))
        each("combine_leaves_source", c1, lambda cl, q: at(t1[cl], cl, q))
        return T
    return scenario


def all_of(bs):
    out = True
    for b in bs:
        if isinstance(b, core.SB) or isinstance(out, core.SB):
            out = (b & out) if isinstance(b, core.SB) else (out & b)
        else:
            out = bool(out) and bool(b)
    return out


def any_of(bs):
    out = False
    for b in bs:
        if isinstance(b, core.SB) or isinstance(out, core.SB):
            out = (b | out) if isinstance(b, core.SB) else (out | b)
        else:
            out = bool(out) or bool(b)
    return out


def at_factor(F, q):
    return F.values[tuple(q[a] for a in F.domain.attrs)]


def scenario_for(cfg, part=0):
    if cfg["kind"] == "binary":
        return binary_scenario(cfg)
    if cfg["kind"] == "unary":
        return unary_scenario(cfg, with_max=bool(part))
    return cv_scenario(cfg)


def run_config(cfg):
    res = Result(cfg)
    mbi = _mbi(True)
    F, CVc = mbi.Factor, mbi.CliqueVector
    fns = [F.__init__, F.expand, F.transpose, F.project, F.sum, F.logsumexp, F.logaddexp, F.max, F.condition, F.copy,
           F.__mul__, F.__add__, F.__iadd__, F.__imul__, F.__sub__, F.__truediv__, F.exp, F.log, F.datavector, F.active,
           CVc.combine, CVc.__add__, CVc.__sub__, CVc.__mul__, CVc.dot, CVc.exp,
           mbi.Domain.merge, mbi.Domain.project, mbi.Domain.marginalize, mbi.Domain.axes]
    res.functions = shims.fn_fingerprint(*fns)
    rng = harness.rng_for(cfg)
    values.run_scenario(res, scenario_for(cfg, 0), rng=rng, tag="")
    if cfg["kind"] == "unary" and np.prod([dict(zip(cfg["univ"], cfg["sizes"]))[a] for a in cfg["A"]]) <= 6:
        values.run_scenario(res, scenario_for(cfg, 1), rng=rng, tag="max:", max_paths=800, max_decisions=200)
    return res


def finding_key(c):
    what = c.get("what", "")
    op = what.split("@")[0].split(":")[0].split("[")[0]
    op = "".join(ch for ch in op if not ch.isdigit())
    for pre in ("sum", "lse", "projectlist", "project_lse", "project_str", "project", "transpose", "expand", "condition", "max"):
        if op.startswith(pre):
            op = pre
            break
    return "%s:%s" % (c["config"]["kind"], op)


def replay(c):
    cfg = c["config"]
    part = 1 if c.get("what", "").startswith("max:") else 0
    return values.replay_scenario(scenario_for(cfg, part), c)


if __name__ == "__main__":
    harness.main(sys.modules[__name__])

"""C15 -- datasets vectorise to their contingency table; projection commutes; domain algebra.

(i)  Domain laws (project, marginalize, merge, invert, canonical, size, sort, axes, contains, ==, iteration) over the REAL pure-Python
     mbi/domain.py, stated as PEP-316 contracts in checks/contracts/domain_laws.py and decided by CrossHair (symbolic execution with z3) for symbolic
     attribute sizes and symbolic attribute selections; every contract has a reachability twin that must be refuted.
(ii) Dataset.project / datavector plumbing with SYMBOLIC record weights on concrete records (symx engine): the table of any projection (any order,
     extra unused columns) equals the weighted count of the records per cell, laid out in the requested order.
"""
import os
import re
import subprocess
import sys
import time

import numpy as np

from symx import core, harness, shims, solve, values
from symx.harness import Result
from . import common

PROPERTY = "C15"
LEVEL = "model_checking"
TECHNIQUE = ("CrossHair (symbolic execution of the real Domain code with z3, contracts over symbolic sizes/selections, 'Confirmed over all paths' required) "
             "+ symx symbolic execution of Dataset.project/datavector with symbolic weights against a per-record oracle")
BOUNDS = {"quick": "Domain: 3-4 attributes, sizes 1..6, every ordered sub-tuple via mask+rotation; Dataset: 3 record sets (empty weights=None case, "
                   "duplicates, boundary values), all ordered projections of 3 attributes with an unused 4th column",
          "thorough": "same contracts with a 120 s budget per condition; Dataset with domain sizes (2,3,2) and (1,2,3)"}
OUTSIDE = ("'the entry for each combination is the number of records': that is np.histogramdd + pandas, the contract of the stand-in used for symbolic weights "
           "(unweighted datasets run through the real numpy histogram in the fidelity runs); attribute sizes beyond 6 (e.g. products beyond 2^63)")
ASSUMPTIONS = ["CrossHair's symbolic ints/lists/bools model Python's", "np.histogramdd replaced by its definition for symbolic weights"]
SHIMS_USED = ["np.histogramdd"]

CONTRACTS = os.path.join(os.path.dirname(os.path.abspath(__file__)), "contracts", "domain_laws.py")
LAWS = ["law_project", "law_marginalize_partition", "law_merge", "law_size_sort_eq"]


def configs(tier, seed):
    cfgs = []
    budget = 60 if tier == "quick" else 150
    for law in LAWS:
        cfgs.append(dict(name="domain:%s" % law, kind="crosshair", fn=law, budget=budget, cost=budget, timeout=budget * 3 + 60))
        cfgs.append(dict(name="domain:%s_reach" % law, kind="crosshair_reach", fn=law + "_reach", budget=30, cost=10, timeout=200))
    sizes_list = [(2, 2, 3)] + ([(2, 3, 2), (1, 2, 3)] if tier == "thorough" else [])
    for sizes in sizes_list:
        for rs in ("mixed", "dups", "single"):
            cfgs.append(dict(name="dataset:%s:%s" % (sizes, rs), kind="dataset", sizes=sizes, records=rs, cost=5))
    return cfgs


def line_of(fn):
    src = open(CONTRACTS).read().split("\n")
    for i, l in enumerate(src):
        if l.startswith("def %s(" % fn):
            return i + 2
    raise core.SymError("contract %s not found" % fn)


def run_crosshair(cfg, res):
    py = os.path.join(harness.VERIF, ".venv", "bin", "python")
    env = dict(os.environ)
    env["VERIF_REPO"] = shims.REPO
    cmd = [py, "-m", "crosshair", "check", "--report_all", "--per_condition_timeout", str(cfg["budget"]),
           "%s:%d" % (CONTRACTS, line_of(cfg["fn"]))]
    t0 = time.time()
    p = subprocess.run(cmd, capture_output=True, text=True, env=env, timeout=cfg["budget"] * 3 + 30)
    out = (p.stdout + p.stderr).strip()
    solve.STATS.solver_s += time.time() - t0
    res.samples.append({"contract": cfg["fn"], "crosshair": out[-300:]})
    res.paths += 1
    reach = cfg["kind"] == "crosshair_reach"
    if "Confirmed over all paths" in out:
        if reach:
            res.ob("sat", "reachability twin of %s was 'confirmed': its precondition is unsatisfiable (vacuous contract)" % cfg["fn"], {"kind": "vacuous"})
        else:
            solve.STATS.queries["unsat"] += 1
            res.ob("unsat", "%s: Confirmed over all paths" % cfg["fn"])
    elif "error:" in out and "when calling" in out:
        if reach:
            solve.STATS.queries["sat"] += 1
            res.ob("unsat", "%s: precondition reachable (post False refuted)" % cfg["fn"])
        else:
            m = re.search(r"when calling (\w+)\((.*)\) \(which returns", out)
            res.ob("sat", "%s: counterexample" % cfg["fn"], {"kind": "crosshair", "call": m.group(0) if m else out[-200:],
                                                              "fn": cfg["fn"], "args": m.group(2) if m else None})
    else:
        solve.STATS.queries["unknown"] += 1
        res.unknown.append({"what": "%s: CrossHair answered %r" % (cfg["fn"], out[-160:])})
        res.obligations += 1


RECORDS = {
    "mixed": [(0, 0, 0, 1), (1, 1, 2, 0), (0, 1, 1, 1), (1, 0, 2, 0), (1, 1, 0, 1)],
    "dups": [(0, 0, 0, 0), (0, 0, 0, 0), (1, 1, 2, 1), (1, 1, 2, 1), (1, 0, 0, 0)],
    "single": [(1, 1, 2, 0)],
}


def dataset_scenario(cfg):
    sizes = tuple(cfg["sizes"])

    def scenario(V):
        import pandas as pd
        mbi = common.mbi_for(V)
        attrs = ["a", "b", "c"]
        recs = [tuple(min(v, n - 1) for v, n in zip(r[:3], sizes)) + (r[3],) for r in RECORDS[cfg["records"]]]
        df = pd.DataFrame(np.array(recs, dtype=int), columns=attrs + ["unused"])
        dom = mbi.Domain(attrs, sizes)
        w = V.array((len(recs),), lambda idx: V.real("w%d" % idx[0], "nn"))
        data = mbi.Dataset(df, dom, w)
        T = []
        T.append(("extra column dropped", tuple(data.df.columns), tuple(attrs)))
        full = data.datavector(flatten=False)
        T.append(("full table shape", tuple(full.shape), sizes))
        for S in common.all_ordered_subsets(attrs, minlen=1):
            P = data.project(S) if len(S) > 1 else data.project(S[0])
            T.append(("project(%s):domain order" % ",".join(S), tuple(P.domain.attrs), tuple(S)))
            T.append(("project(%s):weights carried" % ",".join(S), P.weights is w or (not V.symbolic and np.array_equal(P.weights, w)), True))
            tab = P.datavector(flatten=False)
            shape = tuple(dom.config[a] for a in S)
            T.append(("project(%s):shape" % ",".join(S), tuple(tab.shape), shape))
            if tuple(tab.shape) != shape:
                continue
            flat = P.datavector()
            for k, idx in enumerate(np.ndindex(*shape)):
                want = V.sum([w[r] for r, rec in enumerate(recs) if all(rec[attrs.index(a)] == i for a, i in zip(S, idx))] or [0.0])
                T.append(("project(%s)%s" % (",".join(S), "".join(map(str, idx))), tab[idx], want))
                T.append(("project(%s).flat[%d]" % (",".join(S), k), flat[k], want))
        T.append(("records", data.records, len(recs)))
        dropped = data.drop(["b"])
        T.append(("drop keeps order", tuple(dropped.domain.attrs), ("a", "c")))
        return T
    return scenario


def run_config(cfg):
    res = Result(cfg)
    if cfg["kind"].startswith("crosshair"):
        import hashlib
        src = open(os.path.join(shims.REPO, "src", "mbi", "domain.py")).read()
        res.functions = [{"function": "mbi.domain.Domain (whole class)", "file": "src/mbi/domain.py", "line": 1,
                          "sha256": hashlib.sha256(src.encode()).hexdigest()[:16]}]
        run_crosshair(cfg, res)
        return res
    mbi = common.mbi_for(True)
    res.functions = shims.fn_fingerprint(mbi.Dataset.__init__, mbi.Dataset.project, mbi.Dataset.datavector, mbi.Dataset.drop)
    values.run_scenario(res, dataset_scenario(cfg), rng=harness.rng_for(cfg), timeout_ms=20000, max_paths=4)
    return res


def finding_key(c):
    if c.get("kind") in ("crosshair", "vacuous"):
        return "domain:%s" % c.get("fn", c.get("what", ""))[:60]
    what = re.sub(r"\(.*?\)", "()", c.get("what", "")).split("[")[0]
    what = "".join(ch for ch in what if not ch.isdigit())
    return "dataset:%s" % what


def replay(c):
    if c.get("kind") == "crosshair":
        # evaluate the contract concretely at CrossHair's counterexample, in plain Python on the real Domain
        import importlib.util
        os.environ["VERIF_REPO"] = shims.REPO
        spec = importlib.util.spec_from_file_location("domain_laws_replay", CONTRACTS)
        m = importlib.util.module_from_spec(spec)
        spec.loader.exec_module(m)
        try:
            args = eval("(" + c["args"] + ",)", {"True": True, "False": False})
            out = getattr(m, c["fn"])(*args)
        except Exception as e:
            return {"reproduced": True, "detail": "%s(%s) raised %s: %s on the real Domain" % (c["fn"], c["args"], type(e).__name__, e)}
        return {"reproduced": not out, "detail": "%s(%s) evaluates to %r on the real Domain" % (c["fn"], c["args"], out)}
    if c.get("kind") == "vacuous":
        return {"reproduced": False, "detail": "vacuous contract"}
    return values.replay_scenario(dataset_scenario(c["config"]), c, tol=1e-9)


if __name__ == "__main__":
    harness.main(sys.modules[__name__])

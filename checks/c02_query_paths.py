"""C02 -- every query path answers from one and the same joint distribution.

project (cached and variable-elimination branches), calculate_many_marginals, krondot and datavector of the real
GraphicalModel are executed with all potentials, the total and the Kronecker query matrices symbolic.  Every answer cell
must equal the marginal of the single explicit joint, laid out in the requested attribute order.
"""
import itertools
import sys

import numpy as np

from symx import core, harness, shims, values
from symx.harness import Result
from . import common
from .common import CAT3, CAT4, CAT5

PROPERTY = "C02"
LEVEL = "model_checking"
TECHNIQUE = ("bounded symbolic execution of the real project / calculate_many_marginals / krondot / datavector on z3-term scalars; "
             "each answer cell is an NRA identity against the brute-force joint in the requested order, decided by z3")
BOUNDS = {
    "quick": "3-attribute catalogue x sizes {(2,3,2),(1,2,3)} x zero patterns {none, some, slice}: every ordered attribute tuple (incl. empty, full) "
             "x cache states {none, after calculate_many_marginals, after assigning belief_propagation}; krondot with 1-2 symbolic rows per attribute; "
             "4-attribute catalogue sizes (2,2,2,2): tuples of length <= 2 plus full tuples",
    "thorough": "quick + sizes (2,2,2),(3,2,3) + 4-attribute catalogue with all tuples of length <= 3, sizes (2,3,2,2); 5-attribute structures with tuples of length <= 2",
}
OUTSIDE = "save/load (pickle is a C boundary: z3 terms cannot pass through it); float rounding; >5 attributes"
ASSUMPTIONS = ["real-number semantics with exact exp/log", "Z > 0", "zero patterns are enumerated configuration; all numeric values symbolic",
               "networkx executes concretely"]
SHIMS_USED = ["np.zeros/np.ones", "logsumexp", "exp"]


def configs(tier, seed):
    cfgs = []

    def add(cat, attrs, sizes, zmodes, maxlen, core_=True, cost=1, krows=(2, 1, 2, 1, 1)):
        for sname, cliques in cat.items():
            for zm in zmodes:
                cfgs.append(dict(name="%s:%s:%s" % (sname, sizes, zm), attrs=attrs, sizes=sizes, cliques=cliques, zmode=zm,
                                 maxlen=maxlen, core=core_, cost=cost, krows=krows))
    add(CAT3, "abc", (2, 3, 2), ["none", "some", "slice"], 3, cost=2)
    add(CAT3, "abc", (1, 2, 3), ["none", "slice"], 3, cost=2)
    if tier == "quick":
        add(CAT4, "abcd", (2, 2, 2, 2), ["none", "slice"], 2, cost=6)
    else:
        add(CAT3, "abc", (2, 2, 2), ["some"], 3, cost=2)
        add(CAT3, "abc", (3, 2, 3), ["none", "some"], 3, cost=4)
        add(CAT4, "abcd", (2, 2, 2, 2), ["none", "some", "slice"], 3, cost=10)
        add(CAT4, "abcd", (2, 3, 2, 2), ["none", "slice"], 3, cost=20)
        add(CAT5, "abcde", (2, 2, 2, 2, 2), ["none", "slice"], 2, cost=30, core_=False)
    return cfgs


def tuples_for(attrs, maxlen):
    out = common.all_ordered_subsets(attrs, maxlen=maxlen)
    full = tuple(attrs)
    for extra in (full, tuple(reversed(full)), full[1:] + full[:1]):
        if extra not in out:
            out.append(extra)
    return out


def scenario_for(cfg):
    attrs, sizes = list(cfg["attrs"]), tuple(cfg["sizes"])
    cliques = [tuple(c) for c in cfg["cliques"]]
    maxlen = cfg["maxlen"]

    def scenario(V):
        mbi = common.mbi_for(V)
        dom = mbi.Domain(attrs, sizes)
        N = V.real("N", "p")
        T = []

        def fresh_model():
            m = mbi.GraphicalModel(dom, cliques, total=N)
            pots, tabs = common.sym_potentials(V, mbi, dom, m.cliques, zmode=cfg["zmode"])
            m.potentials = pots
            return m, tabs
        model, tabs = fresh_model()
        J = common.Joint(V, attrs, sizes, tabs)
        if J.logZ is None:
            return T
        tuples = tuples_for(attrs, maxlen)

        def check_factor(label, F, want_attrs):
            got_attrs = tuple(F.domain.attrs)
            T.append((label + ":order", got_attrs, tuple(want_attrs)))
            T.append((label + ":shape", tuple(F.values.shape), tuple(dom.config[a] for a in want_attrs)))
            if got_attrs != tuple(want_attrs) or tuple(F.values.shape) != tuple(dom.config[a] for a in want_attrs):
                return
            for idx, got in common.factor_cells(F):
                T.append(("%s@%s" % (label, "".join(map(str, idx))), got, J.marginal(want_attrs, idx, N)))

        def project_all(tag, m, as_list=False):
            for S in tuples:
                F = m.project(list(S) if as_list else S)
                check_factor("%s:project(%s)" % (tag, ",".join(S)), F, S)

        # --- phase A: nothing cached ---------------------------------------------------------------
        assert not hasattr(model, "marginals")
        project_all("nocache", model)
        dv = model.datavector()
        T.append(("datavector:len", len(dv), int(np.prod(sizes))))
        for i, x in enumerate(itertools.product(*[range(n) for n in sizes])):
            T.append(("datavector[%s]" % (x,), dv[i], J.marginal(attrs, x, N)))
        dv2 = model.datavector(flatten=False)
        T.append(("datavector:shape", tuple(dv2.shape), tuple(sizes)))
        # Kronecker query with symbolic matrices
        rows = [cfg["krows"][i] for i in range(len(attrs))]
        Qs = [V.array((rows[i], sizes[i]), lambda idx, i=i: V.real("q%d_%d%d" % (i, idx[0], idx[1]))) for i in range(len(attrs))]
        kd = model.krondot(Qs)
        T.append(("krondot:shape", tuple(kd.shape), tuple(rows)))
        if tuple(kd.shape) == tuple(rows):
            for kidx in np.ndindex(*rows):
                want = V.sum([J.marginal(attrs, x, N) * _prod([Qs[i][kidx[i], x[i]] for i in range(len(attrs))])
                              for x in itertools.product(*[range(n) for n in sizes]) if J.cells[x] is not None] or [0.0])
                T.append(("krondot@%s" % (kidx,), kd[kidx], want))
        # --- phase B: bulk query populates the cache, then single queries again (history on one object) -----
        bulk = [S for S in tuples if 1 <= len(S) <= 3]
        ans = model.calculate_many_marginals(bulk)
        T.append(("bulk:keys", tuple(sorted(ans.keys())), tuple(sorted(set(bulk)))))
        for S in bulk:
            if S in ans:
                check_factor("bulk(%s)" % ",".join(S), ans[S], S)
        T.append(("bulk:cached", hasattr(model, "marginals"), True))
        project_all("aftercache", model)
        project_all("aftercache_list", model, as_list=True)
        ans2 = model.calculate_many_marginals(bulk[::2])
        for S in bulk[::2]:
            check_factor("bulk2(%s)" % ",".join(S), ans2[S], S)
        dv3 = model.datavector()
        for i, x in enumerate(itertools.product(*[range(n) for n in sizes])):
            T.append(("datavector_aftercache[%s]" % (x,), dv3[i], J.marginal(attrs, x, N)))
        # --- phase C: cache assigned from belief_propagation on a fresh model, bulk afterwards -----------------
        m2, _ = fresh_model()
        m2.marginals = m2.belief_propagation(m2.potentials)
        project_all("bpcache", m2)
        ans3 = m2.calculate_many_marginals(bulk[1::2])
        for S in bulk[1::2]:
            check_factor("bpcache_bulk(%s)" % ",".join(S), ans3[S], S)
        kd2 = m2.krondot(Qs)
        if tuple(kd2.shape) == tuple(rows):
            kidx = tuple(r - 1 for r in rows)
            want = V.sum([J.marginal(attrs, x, N) * _prod([Qs[i][kidx[i], x[i]] for i in range(len(attrs))])
                          for x in itertools.product(*[range(n) for n in sizes]) if J.cells[x] is not None] or [0.0])
            T.append(("krondot_cached@%s" % (kidx,), kd2[kidx], want))
        return T
    return scenario


def _prod(xs):
    out = xs[0]
    for x in xs[1:]:
        out = out * x
    return out


def run_config(cfg):
    res = Result(cfg)
    mbi = common.mbi_for(True)
    G, F = mbi.GraphicalModel, mbi.Factor
    import mbi.graphical_model as gm
    res.functions = shims.fn_fingerprint(G.project, G.krondot, G.calculate_many_marginals, G.datavector, G.belief_propagation,
                                         gm.variable_elimination_logspace, gm.variable_elimination, gm.greedy_order,
                                         F.project, F.transpose, F.__truediv__, F.__mul__, F.sum, F.logsumexp, F.expand)
    values.run_scenario(res, scenario_for(cfg), rng=harness.rng_for(cfg), timeout_ms=60000)
    return res


def finding_key(c):
    what = c.get("what", "")
    op = what.split("(")[0].split("@")[0].split("[")[0]
    if c.get("kind") in ("exception", "poison"):
        op = c.get("kind") + ":" + str(c.get("where", c.get("why", "")))[:60]
    return "%s:%s" % (c["config"]["name"].split(":")[0], op)


def replay(c):
    return values.replay_scenario(scenario_for(c["config"]), c)


if __name__ == "__main__":
    harness.main(sys.modules[__name__])

"""C01 -- exact inference (junction-tree belief propagation) returns the true marginals.

The real GraphicalModel.__init__ / belief_propagation run with every potential entry, the total and one additive
constant per clique symbolic; structures, elimination orders and message schedules are enumerated configuration.
Each clique-marginal cell must equal the marginal of the brute-force joint built from the same symbols.
"""
import itertools
import sys

import numpy as np

from symx import core, harness, shims, values
from symx.harness import Result
from . import common
from .common import CAT3, CAT4, CAT5

PROPERTY = "C01"
LEVEL = "model_checking"
TECHNIQUE = ("bounded symbolic execution of the real belief_propagation on log-space z3-term scalars; every marginal cell "
             "is an NRA identity (cross-multiplied rational functions) against the brute-force joint, decided by z3")
BOUNDS = {
    "quick": "3-attribute catalogue (12 structures) x sizes {(2,3,2),(1,2,3),(2,2,2)} x all 6 elimination orders + None + randomised(int) "
             "x every linear extension of the message order x zero patterns {none, some cells -inf, a whole separator slice -inf}; "
             "4-attribute catalogue (9 structures) sizes (2,2,2,2) with None + 3 given orders",
    "thorough": "quick + 4-attribute catalogue with all 24 orders and sizes (2,3,2,2); 5-attribute chain/cycle/branch structures, sizes 2, "
                "None + 8 given orders (incl. orders that need second-order fill-in); all 120 orders for the 5-chain/5-cycle; sizes (3,3,3); 6-attribute chain/cycle/2x3 grid",
}
OUTSIDE = ("the float clause 'stays finite for potentials far outside the range of exp()' (real-number semantics only); "
           "domains beyond 5 attributes / sizes beyond 3; set-iteration orders other than the PYTHONHASHSEED in use")
ASSUMPTIONS = ["real-number semantics with exact exp/log", "Z > 0 (at least one joint cell has positive mass)",
               "structures, orders, schedules, zero patterns are enumerated; all numeric values are symbolic",
               "networkx (find_cliques, minimum_spanning_tree, topological_sort) executes concretely"]
SHIMS_USED = ["np.zeros/np.ones", "logsumexp", "exp"]


def configs(tier, seed):
    cfgs = []

    def add(cat, attrs, sizes, orders, zmodes, core_=True, cost=1):
        for sname, cliques in cat.items():
            for order in orders:
                for zm in zmodes:
                    cfgs.append(dict(name="%s:%s:%s:%s" % (sname, sizes, "".join(order) if isinstance(order, tuple) else order, zm),
                                     attrs=attrs, sizes=sizes, cliques=cliques, order=order, zmode=zm, core=core_, cost=cost))
    p3 = [tuple(p) for p in itertools.permutations("abc")]
    add(CAT3, "abc", (2, 3, 2), p3 + [None, 2], ["none", "some", "slice"])
    add(CAT3, "abc", (1, 2, 3), [None, ("c", "a", "b"), ("b", "c", "a")], ["none", "slice"])
    add(CAT3, "abc", (2, 2, 2), [None, ("b", "a", "c")], ["some"])
    p4 = [tuple(p) for p in itertools.permutations("abcd")]
    o5 = [None, tuple("abcde"), tuple("edcba"), tuple("acebd"), tuple("bdace"), tuple("ceadb"), tuple("cabed"), tuple("daebc"), 3]
    if tier == "quick":
        add(CAT4, "abcd", (2, 2, 2, 2), [None] + p4[::3], ["none", "slice"], cost=4)
        add(CAT5, "abcde", (2, 2, 2, 2, 2), o5[:4], ["none"], cost=8)
    else:
        add(CAT4, "abcd", (2, 2, 2, 2), p4 + [None, 3], ["none", "some", "slice"], cost=4)
        add(CAT4, "abcd", (2, 3, 2, 2), [None] + p4[::5], ["none", "slice"], cost=8)
        add(CAT4, "abcd", (3, 2, 3, 2), [None] + p4[1::7], ["some"], cost=10)
        add({"chain4": CAT4["chain4"], "cycle4": CAT4["cycle4"]}, "abcd", (3, 3, 3, 3), [None], ["none"], core_=False, cost=100)
        p5 = [tuple(p) for p in itertools.permutations("abcde")]
        add(CAT5, "abcde", (2, 2, 2, 2, 2), o5 + p5[7::11], ["none", "slice", "some"], cost=8)
        add(CAT5, "abcde", (2, 3, 2, 2, 3), [None, tuple("cabed")], ["none"], core_=False, cost=60)
        add(CAT3, "abc", (3, 3, 3), [None, ("b", "a", "c"), ("c", "b", "a")], ["none", "slice"], cost=6)
        add({"cycle5": CAT5["cycle5"], "chain5": CAT5["chain5"]}, "abcde", (2, 2, 2, 2, 2), p5, ["none"], cost=8)
        CAT6 = {"chain6": [("a", "b"), ("b", "c"), ("c", "d"), ("d", "e"), ("e", "f")],
                "cycle6": [("a", "b"), ("b", "c"), ("c", "d"), ("d", "e"), ("e", "f"), ("f", "a")],
                "grid2x3": [("a", "b"), ("b", "c"), ("d", "e"), ("e", "f"), ("a", "d"), ("b", "e"), ("c", "f")]}
        add(CAT6, "abcdef", (2, 2, 2, 2, 2, 2), [None, tuple("abcdef"), tuple("fdbeca"), tuple("cfaebd")], ["none"], core_=False, cost=120)
    return cfgs


def scenario_for(cfg):
    attrs, sizes = list(cfg["attrs"]), tuple(cfg["sizes"])
    cliques = [tuple(c) for c in cfg["cliques"]]
    order = cfg["order"]
    if isinstance(order, (list, tuple)):
        order = list(order)

    def scenario(V):
        mbi = common.mbi_for(V)
        dom = mbi.Domain(attrs, sizes)
        N = V.real("N", "p")
        np.random.seed(12345)
        model = mbi.GraphicalModel(dom, cliques, total=N, elimination_order=order)
        T = []
        # structural sanity that the oracle relies on: potentials live on the model's maximal cliques
        T.append(("covers", all(any(set(c) <= set(m) for m in model.cliques) for c in cliques), True))
        pots, tabs = common.sym_potentials(V, mbi, dom, model.cliques, zmode=cfg["zmode"])
        J = common.Joint(V, attrs, sizes, tabs)
        if J.logZ is None:
            return T
        shift = None
        for cl in model.cliques:
            k = V.logv("k_%s" % "".join(cl))
            shift = k if shift is None else shift + k
        scheds = common.linear_extensions(model.message_order, limit=24)
        T.append(("default_schedule_is_an_extension", [tuple(m) for m in model.message_order] in [[tuple(m) for m in s] for s in scheds]
                  or len(scheds) == 24, True))
        for si, sched in enumerate(scheds):
            model.message_order = sched
            mu = model.belief_propagation(pots)
            T.append(("s%d:keys" % si, tuple(sorted(mu.keys())), tuple(sorted(model.cliques))))
            for cl in model.cliques:
                for idx, got in common.factor_cells(mu[cl]):
                    T.append(("s%d:%s%s" % (si, "".join(cl), "".join(map(str, idx))), got, J.marginal(mu[cl].domain.attrs, idx, N)))
            if si in (0, len(scheds) - 1):
                lz = model.belief_propagation(pots, logZ=True)
                T.append(("s%d:logZ" % si, lz, J.logZ + shift))
        return T
    return scenario


def run_config(cfg):
    res = Result(cfg)
    mbi = common.mbi_for(True)
    G, F = mbi.GraphicalModel, mbi.Factor
    from mbi.junction_tree import JunctionTree as JT
    res.functions = shims.fn_fingerprint(G.__init__, G.belief_propagation, F.__iadd__, F.__sub__, F.__add__, F.logsumexp, F.exp, F.copy,
                                         F.expand, JT.__init__, JT._make_tree, JT._triangulated, JT.mp_order, JT.separator_axes,
                                         JT.maximal_cliques, JT._greedy_order)
    values.run_scenario(res, scenario_for(cfg), rng=harness.rng_for(cfg), timeout_ms=60000 if not cfg.get("core", True) else 30000)
    return res


def finding_key(c):
    cfg = c["config"]
    what = c.get("what", "")
    kind = "logZ" if "logZ" in what else ("struct" if what in ("covers", "default_schedule_is_an_extension") or "keys" in what else "marginal")
    if c.get("kind") in ("exception", "poison"):
        kind = c.get("kind") + ":" + str(c.get("where", c.get("why", "")))[:60]
    return "%s:%s" % (cfg["name"].split(":")[0], kind)


def replay(c):
    return values.replay_scenario(scenario_for(c["config"]), c)


if __name__ == "__main__":
    harness.main(sys.modules[__name__])

"""C20 -- selection and noise primitives are exactly calibrated.

Every private-selection primitive of mechanisms/ is executed with symbolic qualities, epsilon, sensitivity and base measures;
the probability vector handed to choice() is captured and decomposed into (exp-free part, exponent); obligations are stated on
exponents:  X_i - X_j == c (q_i - q_j)  with c = eps/(2 sens) (eps/sens iff declared monotonic),  B_i b_j == B_j b_i,  sum p == 1,
and the returned candidate is the one whose index was drawn.  Scale helpers and samplers are checked for the scale they pass on.
"""
import math
import sys
import types

import numpy as np
import z3

from symx import core, harness, shims, solve, values
from symx.core import SR, ST
from symx.harness import Result
from . import common

PROPERTY = "C20"
LEVEL = "model_checking"
TECHNIQUE = ("bounded symbolic execution of the real primitives; the p= vector captured at choice() is decomposed into exp-atoms and the calibration "
             "is decided on exponents (linear/polynomial identities, z3), max() over symbolic scores forks the path; float replay compares p with the "
             "defining formula")
BOUNDS = {
    "quick": "n = 2..4 candidates (ties allowed: qualities are unconstrained reals); array and dict inputs; base measures absent / dict with other "
             "insertion order and extra keys; both monotonic values; mwem worst_approximated with distinct and repeated cliques, bounded x penalty; "
             "scale helpers for bounded in {False, True}",
    "thorough": "quick + n = 5, 6, three dict orders, workloads of up to 5 cliques incl. triple repeats",
}
OUTSIDE = ("'well defined for scores of huge magnitude' (float overflow; scipy's stabilised softmax is replaced by its definition); "
           "generalized_exponential_mechanism's score transformation; permute_and_flip; autodp's calibration (stubbed)")
ASSUMPTIONS = ["real-number semantics; exp abstracted, calibration decided on exponents", "epsilon, sensitivity, base measures > 0",
               "numpy.random / prng replaced by a recorder: samplers draw from the distribution whose parameters they are passed"]
SHIMS_USED = ["softmax", "logsumexp", "exp", "np.zeros/np.ones"]


class NPRand(types.ModuleType):
    """numpy with only .random replaced (float runs)"""

    def __init__(self, rec):
        super().__init__("numpy_rand")
        self.__dict__["random"] = rec

    def __getattr__(self, name):
        return getattr(np, name)


_MODS = {}


def load(V, name):
    """load mechanisms/<name>.py and point its numpy / scipy names at the engine (symbolic) or at the recorder only (float)"""
    common.mbi_for(V)
    shims.install_fakes()
    mod = shims.load_mechanism_file(name)
    if V.symbolic and name not in _MODS:
        kw = {"np": shims.NP}
        if "softmax" in mod.__dict__:
            kw["softmax"] = shims.sym_softmax
        if "logsumexp" in mod.__dict__:
            kw["logsumexp"] = shims.sym_logsumexp
        shims.shadow(mod, **kw)
        _MODS[name] = True
    return mod


def float_rec(choose):
    def fresh(ev, k):
        n = ev["size"]
        return np.zeros(int(n)) if n is not None else 0.0
    return shims.Recorder(choose=choose, fresh=fresh)


def decompose(p):
    """SR -> (exp-free part as SR, exponent as z3 term)"""
    if not isinstance(p, SR):
        raise core.SymError("probability is not a symbolic real: %r" % (p,))
    f_rest, X = {}, core.R(0)
    for k, (t, pw) in p.f.items():
        nm = str(t)
        if nm in ST.evar_of:
            X = X + ST.evar_of[nm] * core.R(pw)
        else:
            f_rest[k] = (t, pw)
    return SR(p.n, f_rest, p.sg), z3.simplify(X)


def calib_triples(V, T, tag, p, quals, bases, coef):
    """p: captured vector; quals/bases: oracle-side lists aligned with the *candidates in the order the caller listed them*"""
    n = len(quals)
    T.append((tag + "len(p)", len(p), n))
    if len(p) != n:
        return
    if V.symbolic:
        parts = [decompose(x) for x in p]
        tot = 0
        for x in p:
            tot = tot + x
        T.append((tag + "sum(p)==1", tot, 1))
        for i in range(n):
            for j in range(i + 1, n):
                Bi, Xi = parts[i]
                Bj, Xj = parts[j]
                T.append(("%sexponent[%d,%d]" % (tag, i, j), SR(Xi - Xj), coef * (quals[i] - quals[j])))
                bi = bases[i] if bases else 1
                bj = bases[j] if bases else 1
                T.append(("%sbase[%d,%d]" % (tag, i, j), Bi * bj, Bj * bi))
    else:
        w = [(bases[i] if bases else 1.0) * 1.0 for i in range(n)]
        ex = [coef * quals[i] for i in range(n)]
        m = max(ex)
        un = [w[i] * math.exp(ex[i] - m) for i in range(n)]
        s = sum(un)
        for i in range(n):
            T.append(("%sp[%d]" % (tag, i), float(p[i]), un[i] / s))


def em_scenario(cfg):
    def scenario(V):
        mech_mod = load(V, "mechanism")
        T = []
        n = cfg["n"]
        for pick in range(n):
            rec = shims.Recorder(choose=lambda ev: pick) if V.symbolic else float_rec(lambda ev: pick)
            M = mech_mod.Mechanism(1.0, 0.0, cfg.get("bounded", False), prng=rec)
            eps = V.real("eps", "p")
            sens = V.real("sens", "p")
            q = [V.real("q%d" % i) for i in range(n)]
            coef = eps / (2 * sens)
            if cfg["form"] == "array":
                arr = V.array((n,), lambda idx: q[idx[0]]) if cfg.get("as_list") is None else list(q)
                ret = M.exponential_mechanism(arr, eps, sens)
                cands = list(range(n))
                bases = None
            else:
                keys = ["k%d" % i for i in range(n)]
                qd = {k: q[i] for i, k in enumerate(keys)}
                bases = None
                bm = None
                if cfg["base"]:
                    b = [V.real("b%d" % i, "p") for i in range(n)]
                    order = list(range(n))
                    order = order[cfg["rot"]:] + order[:cfg["rot"]]
                    bm = {}
                    if cfg.get("extra"):
                        bm["zz_extra"] = V.real("bx", "p")
                    for i in order:
                        bm[keys[i]] = b[i]
                    bases = b
                ret = M.exponential_mechanism(qd, eps, sens, base_measure=bm)
                cands = keys
            ev = [e for e in rec.events if e["kind"] == "choice"]
            T.append(("pick%d:one selection event" % pick, len(ev), 1))
            if len(ev) != 1:
                continue
            if pick == 0:
                calib_triples(V, T, "", list(ev[0]["p"]), q, bases, coef)
            T.append(("pick%d:returns the drawn candidate" % pick, str(ret), str(cands[pick])))
        return T
    return scenario


def fn_em_scenario(cfg):
    """module-level exponential_mechanism of mst.py / adaptive_grid.py"""
    def scenario(V):
        mod = load(V, cfg["module"])
        T = []
        n = cfg["n"]
        for pick in (0, n - 1):
            rec = shims.Recorder(choose=lambda ev: pick) if V.symbolic else float_rec(lambda ev: pick)
            eps = V.real("eps", "p")
            sens = V.real("sens", "p")
            q = [V.real("q%d" % i) for i in range(n)]
            arr = V.array((n,), lambda idx: q[idx[0]])
            ret = mod.exponential_mechanism(arr, eps, sens, prng=rec, monotonic=cfg["monotonic"])
            coef = eps / sens if cfg["monotonic"] else eps / (2 * sens)
            ev = [e for e in rec.events if e["kind"] == "choice"]
            T.append(("pick%d:one selection event" % pick, len(ev), 1))
            if len(ev) != 1:
                continue
            if pick == 0:
                calib_triples(V, T, "", list(ev[0]["p"]), q, None, coef)
            T.append(("pick%d:returns the drawn index" % pick, int(ret), pick))
        return T
    return scenario


class StubModel:
    """an estimate whose answers are arbitrary (symbolic) vectors"""

    def __init__(self, V, dom, workload):
        self.domain = dom
        self.ans = {}
        for k, cl in enumerate(workload):
            if cl not in self.ans:
                n = dom.size(cl)
                self.ans[cl] = V.array((n,), lambda idx, k=k: V.real("e%d_%d" % (k, idx[0])))

    def project(self, cl):
        outer = self

        class F:
            def datavector(self_inner, flatten=True):
                return outer.ans[tuple(cl)]
        return F()


def mwem_scenario(cfg):
    def scenario(V):
        mod = load(V, "mwem+pgm")
        mbi = common.mbi_for(V)
        dom = mbi.Domain(["a", "b", "c"], [2, 2, 3])
        workload = [tuple(c) for c in cfg["workload"]]
        T = []
        for pick in range(len(workload)):
            rec = shims.Recorder(choose=lambda ev: pick) if V.symbolic else float_rec(lambda ev: pick)
            eps = V.real("eps", "p")
            est = StubModel(V, dom, workload)
            answers = {}
            for k, cl in enumerate(workload):
                if cl not in answers:
                    answers[cl] = V.array((dom.size(cl),), lambda idx, k=k: V.real("x%d_%d" % (k, idx[0])))
            if V.symbolic:
                shims.RNG["obj"] = rec
                try:
                    ret = mod.worst_approximated(answers, est, list(workload), eps, penalty=cfg["penalty"], bounded=cfg["bounded"])
                finally:
                    shims.RNG["obj"] = None
            else:
                old = mod.__dict__["np"]
                mod.__dict__["np"] = NPRand(rec)
                try:
                    ret = mod.worst_approximated(answers, est, list(workload), eps, penalty=cfg["penalty"], bounded=cfg["bounded"])
                finally:
                    mod.__dict__["np"] = old
            ev = [e for e in rec.events if e["kind"] == "choice"]
            T.append(("pick%d:one selection event" % pick, len(ev), 1))
            if len(ev) != 1:
                continue
            quals = []
            for cl in workload:
                err = V.sum([abs(a - b) for a, b in zip(answers[cl], est.ans[cl])])
                quals.append(err - (dom.size(cl) if cfg["penalty"] else 0))
            sens = 2.0 if cfg["bounded"] else 1.0
            if pick == 0:
                calib_triples(V, T, "", list(ev[0]["p"]), quals, None, eps / (2 * sens))
            T.append(("pick%d:returns the drawn candidate" % pick, str(ret), str(workload[pick])))
        return T
    return scenario


def scale_scenario(cfg):
    def scenario(V):
        mech_mod = load(V, "mechanism")
        T = []
        rec = shims.Recorder() if V.symbolic else float_rec(lambda ev: 0)
        M = mech_mod.Mechanism(1.0, 0.0, cfg["bounded"], prng=rec)
        eps = V.real("eps", "p")
        l1 = V.real("l1", "p")
        want = (2 * l1 if cfg["bounded"] else l1) / eps
        T.append(("laplace_noise_scale", M.laplace_noise_scale(l1, eps), want))
        if V.symbolic:
            l2 = V.real("l2", "p")
            g = M.gaussian_noise_scale(l2, eps, V.real("delta", "p"))
            sig = SR(z3.Real("sigma_ana!%d" % len(ST.events)), None, "p")      # the value the autodp stand-in handed out
            T.append(("gaussian_noise_scale", g, (2 * l2 if cfg["bounded"] else l2) * sig))
        if True:
            # two mechanisms with different adjacency flags in one process, same arguments, both orders: no state may be shared
            for first in (False, True):
                l2b, epsb, delb = V.real("l2b", "p"), V.real("epsb", "p"), V.real("deltab", "p")
                if not V.symbolic:
                    delb = min(0.5, delb * 0.1)
                for flag in (first, not first):
                    Mx = mech_mod.Mechanism(1.0, 0.0, flag, prng=rec)
                    gx = Mx.gaussian_noise_scale(l2b, epsb, delb)
                    sigx = SR(z3.Real("sigma_ana!%d" % len(ST.events)), None, "p") if V.symbolic else shims.fake_sigma(epsb, delb)
                    T.append(("gaussian_noise_scale:first%d:bounded%d" % (first, flag), gx, (2 * l2b if flag else l2b) * sigx))
                    T.append(("laplace_noise_scale:first%d:bounded%d" % (first, flag), Mx.laplace_noise_scale(l2b, epsb), (2 * l2b if flag else l2b) / epsb))
        s = V.real("s", "p")
        M.gaussian_noise(s, 3)
        M.laplace_noise(s, 2)
        ev = rec.events
        T.append(("samplers:two draws", tuple(e["kind"] for e in ev), ("normal", "laplace")))
        if len(ev) == 2:
            T.append(("gaussian_noise:scale", ev[0]["scale"], s))
            T.append(("gaussian_noise:loc", ev[0]["loc"], 0))
            T.append(("gaussian_noise:size", ev[0]["size"], 3))
            T.append(("laplace_noise:scale", ev[1]["scale"], s))
            T.append(("laplace_noise:loc", ev[1]["loc"], 0))
            T.append(("laplace_noise:size", ev[1]["size"], 2))
        return T
    return scenario


def configs(tier, seed):
    cfgs = []
    ns = [2, 3, 4] + ([5, 6] if tier == "thorough" else [])
    for n in ns:
        cfgs.append(dict(name="em:array:n%d" % n, kind="em", form="array", n=n, base=False, cost=n))
        cfgs.append(dict(name="em:dict:n%d" % n, kind="em", form="dict", n=n, base=False, cost=n))
        for rot in ([1] if tier == "quick" else [0, 1, 2]):
            for extra in (False, True):
                cfgs.append(dict(name="em:dict_base:n%d:rot%d:extra%d" % (n, rot, extra), kind="em", form="dict", n=n, base=True, rot=rot % n,
                                 extra=extra, cost=2 * n))
        for module in ("mst", "adaptive_grid"):
            for mono in (False, True):
                cfgs.append(dict(name="fn:%s:n%d:mono%d" % (module, n, mono), kind="fn", module=module, n=n, monotonic=mono, cost=n))
    wls = [[("a", "b"), ("b", "c")], [("a", "b"), ("a", "b"), ("c",)], [("c",), ("a",), ("c",), ("b", "c")]]
    if tier == "thorough":
        wls.append([("a", "b"), ("b", "c"), ("a", "c")])
        wls.append([("a",), ("b",), ("c",), ("a", "b"), ("b", "c")])
        wls.append([("b", "c"), ("b", "c"), ("b", "c"), ("a",)])
    for wi, wl in enumerate(wls):
        for bounded in (False, True):
            for penalty in (False, True):
                cfgs.append(dict(name="mwem:w%d:bounded%d:penalty%d" % (wi, bounded, penalty), kind="mwem", workload=wl, bounded=bounded,
                                 penalty=penalty, cost=6))
    for bounded in (False, True):
        cfgs.append(dict(name="scales:bounded%d" % bounded, kind="scale", bounded=bounded))
    return cfgs


def scenario_for(cfg):
    return {"em": em_scenario, "fn": fn_em_scenario, "mwem": mwem_scenario, "scale": scale_scenario}[cfg["kind"]](cfg)


def run_config(cfg):
    res = Result(cfg)
    V = values.SymVals()
    mech = load(V, "mechanism")
    mst = load(V, "mst")
    ag = load(V, "adaptive_grid")
    mw = load(V, "mwem+pgm")
    M = mech.Mechanism
    res.functions = shims.fn_fingerprint(M.exponential_mechanism, M.laplace_noise_scale, M.gaussian_noise_scale, M.gaussian_noise, M.laplace_noise,
                                         mst.exponential_mechanism, ag.exponential_mechanism, mw.worst_approximated)
    values.run_scenario(res, scenario_for(cfg), rng=harness.rng_for(cfg), timeout_ms=30000, max_paths=200, max_decisions=80)
    return res


def finding_key(c):
    what = c.get("what", "")
    what = "".join(ch for ch in what.split("[")[0] if not ch.isdigit())
    cfg = c["config"]
    if c.get("kind") in ("exception", "poison"):
        what = c.get("kind") + ":" + str(c.get("where", c.get("why", "")))[:70]
    return "%s:%s:%s" % (cfg["kind"], cfg.get("module", cfg.get("form", "")), what)


def replay(c):
    return values.replay_scenario(scenario_for(c["config"]), c, tol=1e-7)


if __name__ == "__main__":
    harness.main(sys.modules[__name__])

"""C13 -- estimation is history-free; returned models are immutable snapshots; caller inputs are not modified.

One FactoredInference object is driven through a call history (varying measurement sets, totals, solvers); after every call the
returned model is compared, term by term, with the model a *fresh* estimator returns for the same (symbolic) arguments, all
previously returned models are re-queried, and the caller's list / arrays / zero specification are compared with copies.
"""
import sys

import numpy as np

from symx import core, harness, shims, solve, values
from symx.harness import Result
from . import common, estim

PROPERTY = "C13"
LEVEL = "model_checking"
TECHNIQUE = ("relational bounded symbolic execution: history run vs fresh run of the real estimate() on shared symbolic arguments; obligations "
             "(potentials, marginals, total, answers of call k) == (fresh estimator's), re-queried answers of earlier models unchanged, caller "
             "inputs identical before/after; NRA identities decided by z3, counterexamples replayed on the real code")
BOUNDS = {
    "quick": "8 histories of 2-3 calls over 9 measurement families, solvers MD(step)/RDA(computed L)/IG, iters 1, totals given/omitted, with and "
             "without structural zeros; warm-start histories for the snapshot clause only; domain a,b,c sizes (2,2,2)",
    "thorough": "quick + iters 2, sizes (2,3,2), every rotation of each history",
}
OUTSIDE = "the warm-start convergence clause (a limit statement, like C03); histories longer than 3 calls; float rounding"
ASSUMPTIONS = ["real-number semantics; exp abstracted as a positive function", "noise scales, totals, step sizes > 0",
               "histories are enumerated; all numeric arguments are symbolic and shared between the history run and the fresh run"]
SHIMS_USED = ["np.zeros/np.ones", "logsumexp", "exp", "float", "sparse @ object-array", "lsmr", "eigsh", "np.allclose", "1e-100 / nextafter(0,1) regularisers"]

# (family, total mode, solver)
HISTS = {
    "md_mixed": [("two_overlap", "given", "MD_step"), ("oneway", "given", "MD_step"), ("two_overlap", "omitted", "MD_step")],
    "rda_same_shape": [("single", "given", "RDA"), ("single_I", "given", "RDA")],
    "rda_pairs": [("pair_P", "given", "RDA"), ("pair_I", "given", "RDA"), ("pair_P", "given", "RDA")],
    "ig_then_md": [("nested_perm", "given", "IG"), ("two_overlap", "given", "MD_step")],
    "empty_between": [("empty", "given", "MD_step"), ("two_overlap", "given", "MD_step"), ("empty", "given", "RDA")],
    "solvers_same_data": [("disconnected", "given", "MD_step"), ("disconnected", "given", "RDA"), ("disconnected", "given", "IG")],
    "triangle_then_sub": [("triangle", "given", "MD_step"), ("single_I", "omitted", "MD_step")],
    "ls": [("single_I", "given", "MD_ls"), ("two_overlap", "given", "MD_ls")],
}
WARM = {
    "warm_same": [("two_overlap", "sameN", "MD_step"), ("two_overlap", "sameN", "MD_step")],
    "warm_same_rda": [("oneway", "sameN", "RDA"), ("oneway", "sameN", "RDA"), ("two_overlap", "sameN", "RDA")],
    "warm_grow": [("single_I", "sameN", "MD_step"), ("two_overlap", "sameN", "MD_step"), ("two_overlap", "given", "IG")],
}


def configs(tier, seed):
    cfgs = []
    sizes_list = [(2, 2, 2)] + ([(2, 3, 2)] if tier == "thorough" else [])
    for sizes in sizes_list:
        for iters in ([1] if tier == "quick" else [1, 2]):
            for hname, hist in HISTS.items():
                rots = [hist] if tier == "quick" else [hist[i:] + hist[:i] for i in range(len(hist))]
                for ri, h in enumerate(rots):
                    for zeros in ((None, "separator_value") if hname in ("md_mixed", "solvers_same_data") else (None,)):
                        heavy = iters > 1 or sizes != (2, 2, 2)
                        cfgs.append(dict(name="cold:%s:r%d:%s:i%d:z%s" % (hname, ri, sizes, iters, zeros), warm=False, hist=h, sizes=sizes,
                                         iters=iters, zeros=zeros, core=not heavy, cost=20 if heavy else 6, timeout=900))
            for hname, hist in WARM.items():
                cfgs.append(dict(name="warm:%s:%s:i%d" % (hname, sizes, iters), warm=True, hist=hist, sizes=sizes, iters=iters, zeros=None,
                                 core=iters == 1 and sizes == (2, 2, 2), cost=8, timeout=900))
    return cfgs


TUPLES = [("a",), ("b", "a"), ("a", "c"), ("c", "b", "a")]


def snapshot(model):
    """everything a caller can observe of a returned model, as (label, value) pairs"""
    out = [("total", model.total), ("cliques", tuple(model.cliques))]
    for cl in model.cliques:
        for idx, v in common.factor_cells(model.potentials[cl]):
            out.append(("potentials[%s]%s" % ("".join(cl), "".join(map(str, idx))), v))
    if hasattr(model, "marginals"):
        for cl in model.cliques:
            for idx, v in common.factor_cells(model.marginals[cl]):
                out.append(("marginals[%s]%s" % ("".join(cl), "".join(map(str, idx))), v))
    out.append(("has_marginals", hasattr(model, "marginals")))
    for S in TUPLES:
        F = model.project(S)
        for idx, v in common.factor_cells(F):
            out.append(("project(%s)%s" % (",".join(S), "".join(map(str, idx))), v))
    return out


def scenario_for(cfg):
    attrs, sizes = ["a", "b", "c"], tuple(cfg["sizes"])
    from .c10_structural_zeros import ZEROS
    zspec = ZEROS[cfg["zeros"]] if cfg["zeros"] else {}

    def scenario(V):
        cut = 2 if any(h[2] == "MD_ls" for h in cfg["hist"]) else None
        mbi = estim.prepare_inference(V, cut)
        dom = mbi.Domain(attrs, sizes)
        T = []
        zgiven = {k: list(v) for k, v in zspec.items()}
        eng = mbi.FactoredInference(dom, iters=cfg["iters"], warm_start=cfg["warm"], structural_zeros=zgiven)
        Nshared = V.real("N", "p")
        returned = []
        for k, (fam, tmode, solver) in enumerate(cfg["hist"]):
            tag = "c%d_" % k
            ms = estim.measurements(V, dom, estim.FAMS[fam], tag=tag)
            keep = list(ms)
            ycopy = [[v for v in m[1]] for m in ms]
            Nk = {"given": lambda: V.real("N%d" % k, "p"), "sameN": lambda: Nshared, "omitted": lambda: None}[tmode]()
            name, opts = estim.solver_options(V, solver)
            model = eng.estimate(ms, total=Nk, engine=name, options=opts)
            # caller inputs untouched
            T.append(("call%d:measurement list untouched" % k, len(ms) == len(keep) and all(a is b for a, b in zip(ms, keep)), True))
            for mi, (m, yc) in enumerate(zip(ms, ycopy)):
                same = len(m[1]) == len(yc) and all((a is b) or (not V.symbolic and a == b) for a, b in zip(m[1], yc))
                T.append(("call%d:y[%d] untouched" % (k, mi), same, True))
            T.append(("call%d:zero specification untouched" % k, str(zgiven), str({kk: list(v) for kk, v in zspec.items()})))
            # earlier models are snapshots
            for j, (mj, snap) in enumerate(returned):
                now = snapshot(mj)
                T.append(("call%d:model%d snapshot size" % (k, j), len(now), len(snap)))
                for (l1, v1), (l2, v2) in zip(now, snap):
                    T.append(("call%d:model%d unchanged:%s" % (k, j, l1), v1, v2))
            snap = snapshot(model)
            if not cfg["warm"]:
                eng2 = mbi.FactoredInference(dom, iters=cfg["iters"], warm_start=False, structural_zeros={kk: list(v) for kk, v in zspec.items()})
                ms2 = estim.measurements(V, dom, estim.FAMS[fam], tag=tag)
                name2, opts2 = estim.solver_options(V, solver)
                fresh = eng2.estimate(ms2, total=Nk, engine=name2, options=opts2)
                fs = snapshot(fresh)
                T.append(("call%d:same observables as fresh" % k, tuple(l for l, _ in snap), tuple(l for l, _ in fs)))
                if len(fs) == len(snap):
                    for (l1, v1), (l2, v2) in zip(snap, fs):
                        T.append(("call%d:history-free:%s" % (k, l1), v1, v2))
            returned.append((model, snap))
        return T
    return scenario


def run_config(cfg):
    res = Result(cfg)
    mbi = common.mbi_for(True)
    FI = mbi.FactoredInference
    res.functions = shims.fn_fingerprint(FI.__init__, FI.estimate, FI.fix_measurements, FI._setup, FI.mirror_descent, FI.dual_averaging,
                                         FI.interior_gradient, FI._lipschitz, FI._marginal_loss, mbi.CliqueVector.combine,
                                         mbi.GraphicalModel.belief_propagation, mbi.GraphicalModel.mle)
    values.run_scenario(res, scenario_for(cfg), rng=harness.rng_for(cfg), timeout_ms=60000, max_paths=48, max_decisions=100)
    return res


def finding_key(c):
    what = c.get("what", "")
    parts = what.split(":")
    kind = parts[1].split(" ")[0] if len(parts) > 1 else what[:30]
    if "unchanged" in what:
        kind = "snapshot_changed"
    if c.get("kind") in ("exception", "poison"):
        kind = c.get("kind") + ":" + str(c.get("where", c.get("why", "")))[:70]
    return "%s:%s" % ("warm" if c["config"]["warm"] else "cold", kind)


def replay(c):
    return values.replay_scenario(scenario_for(c["config"]), c, tol=1e-7)


if __name__ == "__main__":
    harness.main(sys.modules[__name__])

"""C11 -- synthetic records realise the model: the rounding kernel.

`synthetic_col` (the closure inside GraphicalModel.synthetic_data that turns expected counts into a column of records, method='round') is lifted from
the working tree's source with `ast` on every run and executed with SYMBOLIC counts c_i >= 0 and a concrete row count T: np.modf forks over the integer
parts (k_i <= c_i*T/sum(c) < k_i + 1 joins the path condition), np.random.choice(n, extra, False, p) forks over every subset of the requested size and
may only return indices with p_i > 0 (numpy's contract).  On every path the produced column is concrete and must have T entries, all < n, with per-cell
counts within 1 of the expected count and no record in a cell of expected count 0; and the draw must be possible (numpy raises otherwise).
"""
import ast
import inspect
import itertools
import sys
import textwrap
import types

import numpy as np
import z3

from symx import core, harness, shims, solve, values
from symx.core import SR, ST
from symx.harness import Result
from . import common

PROPERTY = "C11"
LEVEL = "model_checking"
TECHNIQUE = ("bounded symbolic execution of the AST-extracted rounding kernel with symbolic expected counts; integer parts and sampler outcomes are path "
             "forks with linear path conditions; per-path obligations (row count, range, rounding error < 1, zero cells stay empty, draw feasible) are "
             "decided by z3 (LRA); violations replayed through the real synthetic_data on a single-attribute model")
BOUNDS = {"quick": "n = 2..3 cells, row counts T = 1..4, zero patterns {none, one cell expected 0}", "thorough": "n = 2..4, T = 1..6"}
OUTSIDE = ("the column-by-column groupby/apply pipeline, whole-frame row counts and domains, sampling mode's distribution: pandas and the RNG are C "
           "boundaries (and the repository's own test_synthetic_data fails on the installed pandas); T beyond the bound")
ASSUMPTIONS = ["np.modf by contract (c = integer part + fraction, 0 <= fraction < 1)", "np.random.choice(n, k, False, p) returns k distinct indices with p_i > 0, "
               "and raises if fewer than k entries of p are non-zero", "np.random.shuffle permutes"]
SHIMS_USED = []


def extract_kernel(mbi):
    src = textwrap.dedent(inspect.getsource(mbi.GraphicalModel.synthetic_data))
    tree = ast.parse(src)
    fn = None
    for node in ast.walk(tree):
        if isinstance(node, ast.FunctionDef) and node.name == "synthetic_col":
            fn = node
    if fn is None:
        raise core.SymError("GraphicalModel.synthetic_data no longer contains the nested function synthetic_col")
    mod = ast.Module(body=[fn], type_ignores=[])
    return compile(ast.fix_missing_locations(mod), "<synthetic_col lifted from graphical_model.py>", "exec"), ast.unparse(fn)


class KernelNP(types.ModuleType):
    def __init__(self, rng):
        super().__init__("np_kernel")
        self.__dict__["random"] = rng

    def __getattr__(self, name):
        return getattr(np, name)

    def modf(self, counts):
        T = KERNEL["T"]
        frac = np.empty(len(counts), dtype=object)
        integ = np.zeros(len(counts))
        for i, c in enumerate(counts):
            if not isinstance(c, core.Sym):
                f, k = np.modf(float(c))
                frac[i], integ[i] = float(f), k
                continue
            k = 0
            while k < T:
                lt = c < (k + 1)
                if bool(lt):
                    break
                k += 1
            frac[i] = c - k
            integ[i] = float(k)
        KERNEL["frac"], KERNEL["integ"] = list(frac), [int(v) for v in integ]
        return frac, integ


KERNEL = {"T": 1}


class KernelRNG:
    def __init__(self):
        self.calls = []

    def choice(self, a, size=None, replace=True, p=None):
        n, k = int(a), int(size)
        self.calls.append({"n": n, "k": k, "replace": replace, "p": list(p)})
        ex = ST.explorer
        chosen = []
        for i in range(n):
            if len(chosen) == k:
                break
            must = (n - i) <= (k - len(chosen))          # all remaining ones are needed
            take = True if must else ex.decide(z3.Bool("take!%d" % i))
            if take:
                pos = p[i] > 0
                if not (pos if isinstance(pos, bool) else bool(pos)):
                    raise solve.Pruned("the sampler cannot return index %d: its probability is 0 on this path" % i)
                chosen.append(i)
        if len(chosen) < k:
            raise solve.Pruned("not enough candidates")
        return np.array(chosen, dtype=int)

    def shuffle(self, x):
        return None


def configs(tier, seed):
    cfgs = []
    ns = [2, 3] if tier == "quick" else [2, 3, 4]
    Ts = [1, 2, 3, 4] if tier == "quick" else [1, 2, 3, 4, 5, 6]
    for n in ns:
        for T in Ts:
            for z in (None, 0, n - 1):
                if tier == "quick" and n == 3 and T == 4 and z is not None:
                    continue
                cfgs.append(dict(name="round:n%d:T%d:zero%s" % (n, T, z), n=n, T=T, zero=z, cost=(T + 1) ** n, timeout=900))
    return cfgs


def run_config(cfg):
    res = Result(cfg)
    mbi = common.mbi_for(True)
    code, text = extract_kernel(mbi)
    res.functions = shims.fn_fingerprint(mbi.GraphicalModel.synthetic_data)
    n, T = cfg["n"], cfg["T"]

    def once():
        rng = KernelRNG()
        ns = {"np": KernelNP(rng), "method": "round"}
        exec(code, ns)
        kernel = ns["synthetic_col"]
        KERNEL["T"] = T
        c = [SR(core.R(0)) if cfg["zero"] == i else SR.var("c%d" % i, "nn") for i in range(n)]
        tot = 0
        for x in c:
            tot = tot + x
        ST.assume(tot.frac()[0] > 0)
        counts = np.empty(n, dtype=object)
        for i in range(n):
            counts[i] = c[i]
        try:
            vals = kernel(counts, T)
        except values.REAL_EXC as e:
            res.ob("sat", "exception", {"kind": "exception", "exc": "%s: %s" % (type(e).__name__, e), "path": [str(x) for x in ST.pathcond][:8]})
            return 0

        def ob(goal, what):
            if isinstance(goal, (bool, np.bool_)):
                res.ob("unsat" if goal else "sat", what, {"kind": "structural", "env": witness()})
                return
            v, mo, _ = solve.prove(goal.t)
            res.ob(v, what, {"kind": "model", "env": solve.model_env(mo)} if v == "sat" else None)

        def witness():
            v, mo, _ = solve.check_sat(list(ST.assumptions) + list(ST.pathcond), 5000)
            return solve.model_env(mo) if v == "sat" else {}
        vals = np.asarray(vals)
        ob(len(vals) == T, "exactly the requested number of rows")
        ob(bool(np.all((vals >= 0) & (vals < n))), "every value inside the attribute's domain")
        cnt = [int(np.sum(vals == i)) for i in range(n)]
        for i in range(n):
            expected = c[i] * T / tot
            d = expected - cnt[i]
            ob((d < 1) & (d > -1) if not isinstance(d < 1, bool) else ((d < 1) and (d > -1)), "rounding error of cell %d below 1" % i)
            if c[i].sg == "z":
                ob(cnt[i] == 0, "no record in a cell of expected count 0 [%d]" % i)
            else:
                z = (c[i] > 0)
                imp = core.SB(z3.Implies(z3.Not(z.t), z3.BoolVal(cnt[i] == 0))) if isinstance(z, core.SB) else (bool(z) or cnt[i] == 0)
                ob(imp, "no record in a cell whose expected count is 0 on this path [%d]" % i)
        for call in rng.calls:
            npos = 0
            for pi_ in call["p"]:
                g = pi_ > 0
                npos = npos + (SR(z3.If(g.t, core.R(1), core.R(0))) if isinstance(g, core.SB) else (1 if g else 0))
            ob(npos >= call["k"], "the draw without replacement is possible (enough non-zero probabilities)")
            ob(call["replace"] is False, "extras are drawn without replacement")
        if len(res.samples) < 3:
            res.samples.append({"path": [str(x)[:60] for x in ST.pathcond][:6], "column": vals.tolist(), "counts": cnt})
        return 1
    ex = solve.Explorer(max_paths=5000, max_decisions=60, branch_timeout_ms=2000)
    outs = ex.run(once)
    res.paths += len(outs)
    for kind, taken, out in outs:
        if kind in ("bound", "infeasible"):
            res.unknown.append({"what": "path %s: %s" % (kind, out)})
    return res


def finding_key(c):
    what = "".join(ch for ch in c.get("what", "") if not ch.isdigit()).split("[")[0]
    if c.get("kind") == "exception":
        what = "exception:" + c.get("exc", "").split(":")[0]
    return "kernel:%s" % what


def replay(c):
    """the real synthetic_data on a one-attribute model whose expected counts are the counterexample's (and a few random ones)"""
    import random
    cfg = c["config"]
    mbi = common.mbi_for(False)
    n, T = cfg["n"], cfg["T"]
    rng = random.Random(5)
    envs = [c.get("env") or {}] + [{} for _ in range(6)]
    for env in envs:
        cs = []
        for i in range(n):
            if cfg["zero"] == i:
                cs.append(0.0)
            else:
                cs.append(float(env.get("c%d" % i, rng.choice([0.0, 0.5, 1.0, 2.5, 3.0]))))
        if sum(cs) <= 0:
            continue
        dom = mbi.Domain(["a"], [n])
        model = mbi.GraphicalModel(dom, [("a",)], total=float(T))
        with np.errstate(divide="ignore"):
            model.potentials = mbi.CliqueVector({("a",): mbi.Factor(dom, np.log(np.array(cs)))})
        for seed in range(8):
            np.random.seed(seed)
            try:
                df = model.synthetic_data(rows=T).df
            except values.REAL_EXC as e:
                return {"reproduced": True, "detail": "synthetic_data raised %s: %s for expected counts %s, rows %d" % (type(e).__name__, e, cs, T)}
            col = df["a"].values
            cnt = [int(np.sum(col == i)) for i in range(n)]
            exp = [x * T / sum(cs) for x in cs]
            bad = (len(col) != T or any(v < 0 or v >= n for v in col) or any(abs(a - b) >= 1 - 1e-9 for a, b in zip(cnt, exp))
                   or any(e == 0 and k > 0 for e, k in zip(exp, cnt)))
            if bad:
                return {"reproduced": True, "detail": "synthetic_data(rows=%d) on expected counts %s gave cell counts %s (seed %d)" % (T, exp, cnt, seed)}
    return {"reproduced": False, "detail": "real synthetic_data satisfied all clauses on the counterexample and 6 random count vectors x 8 seeds"}


if __name__ == "__main__":
    harness.main(sys.modules[__name__])

"""C06 -- private data reaches mechanism output only through the DP primitives.

Same lock-step runs as C05 (see checks/c05_privacy_budget.py and checks/mech.py).  Because every released value, every selection
outcome and every estimator answer is the SAME symbol in the run on D and in the run on D', any difference between the two runs is a
flow of private data around the DP primitives.  Obligations on every explored path:
   same sequence of events (kinds, sizes), solver-equal noise scales, identical arguments to every estimator call (query, projection,
   noise level, y values, total), estimators constructed over the same domain, identical returned data, in the original domain.
A fork whose condition differs between the runs shows up as two paths of which one breaks these equalities.
"""
import sys

from symx import harness
from . import c05_privacy_budget as base

PROPERTY = "C06"
LEVEL = "model_checking"
TECHNIQUE = ("relational (self-composition) bounded symbolic execution of the real mechanism drivers on a neighbouring pair with all DP outputs "
             "havoc'd to shared symbols; obligations: event sequences, noise scales, estimator arguments and returned data are equal in both "
             "runs (term equality / z3), output domain == input domain")
BOUNDS = base.BOUNDS
OUTSIDE = base.OUTSIDE
ASSUMPTIONS = base.ASSUMPTIONS + ["synthetic_data() of the havoc'd model returns a fixed record set over the model's domain"]
SHIMS_USED = base.SHIMS_USED
configs = base.configs
scenario_for = base.scenario_for


def run_config(cfg):
    return base.run_config(cfg, prop="C06")


def finding_key(c):
    return base.finding_key(c).replace("C:", "C06:")


def replay(c):
    return base.replay(c, prop="C06")


if __name__ == "__main__":
    harness.main(sys.modules[__name__])

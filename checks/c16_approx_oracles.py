"""C16 -- approximate marginal oracles are normalised, and exact on acyclic structures.

(1) normalisation: RegionGraph(convex=False) and FactorGraph(convex=False) run 1-2 sweeps from their real initial messages and from ARBITRARY
    positive symbolic messages (any reachable message state) on arbitrary clique sets: every pseudo-marginal is >= 0, sums to the total, and no partial
    primitive fails.
(2) loopy BP on tree factor graphs: after diameter(+1,+2) sweeps the clique marginals equal the brute-force joint's.
(3) generalised BP on clique sets with the running-intersection property: the clause 'exact once run for enough sweeps' is a limit statement because of
    the fixed 0.5 damping; what is decided is its fixed-point form: IF one sweep leaves the messages unchanged (converged), THEN the returned marginals
    are the exact ones.
"""
import itertools
import sys

import numpy as np
import z3

from symx import core, harness, shims, solve, values
from symx.core import SL, SR, ST
from symx.harness import Result
from . import common

PROPERTY = "C16"
LEVEL = "model_checking"
TECHNIQUE = ("bounded symbolic execution of the real RegionGraph.generalized_belief_propagation / FactorGraph.loopy_belief_propagation on log-space z3 "
             "scalars (damping = square-root variables); normalisation and exactness are NRA identities against the brute-force joint, the GBP clause is "
             "an implication from the fixed-point equations; decided by z3")
BOUNDS = {
    "quick": "3-4 attributes of size 2 (one of size 3); normalisation: 6 clique sets incl. loops, sweeps 1-2, real and arbitrary messages; LBP exactness: "
             "4 tree factor graphs, sweeps diameter..diameter+2; GBP fixed point: 2-level region graphs (chain, star, nested)",
    "thorough": "quick + a star of three 3-cliques writing the shared separator in different orders, and potentials on separator regions (known finding)",
}
OUTSIDE = ("GBP fixed-point exactness on region graphs with >= 4 maximal cliques or 3 levels (nlsat did not answer within 30-40 min); "
           "'exact once run for enough sweeps' for GBP as a statement about finitely many damped sweeps (geometric convergence only); FactorGraph(convex=True) "
           "(cvxopt is not installed); float overflow in unnormalised beliefs; warm messages with -inf entries")
ASSUMPTIONS = ["real-number semantics; log-space values as positive reals", "messages are arbitrary positive reals in the 'arbitrary state' runs",
               "clique sets, sweep counts are enumerated; potentials, total, messages are symbolic"]
SHIMS_USED = ["np.zeros/np.ones", "logsumexp", "exp"]

NORM_SETS = {
    "star_orders": [("a", "b", "c"), ("d", "c", "b"), ("c", "b", "e")],
    "chain": [("a", "b"), ("b", "c")],
    "triangle_loop": [("a", "b"), ("b", "c"), ("a", "c")],
    "star": [("a", "b"), ("a", "c"), ("a", "d")],
    "nested": [("a", "b", "c"), ("b", "c"), ("c", "d")],
    "cycle4": [("a", "b"), ("b", "c"), ("c", "d"), ("d", "a")],
    "overlap3": [("a", "b", "c"), ("b", "c", "d")],
}
TREE_FG = {
    "chain": ([("a", "b"), ("b", "c")], 4),
    "chain_with_unary": ([("a",), ("a", "b"), ("b", "c")], 4),
    "star": ([("a", "b"), ("a", "c"), ("a", "d")], 4),
    "chain4": ([("a", "b"), ("b", "c"), ("c", "d")], 6),
}
RIP_SETS = {
    "star_orders": [("a", "b", "c"), ("d", "c", "b"), ("c", "b", "e")],
    "overlap3_orders": [("a", "b", "c"), ("d", "c", "b")],
    "chain": [("a", "b"), ("b", "c")],
    "star": [("a", "b"), ("a", "c"), ("a", "d")],
    "chain4": [("a", "b"), ("b", "c"), ("c", "d")],
    "overlap3": [("a", "b", "c"), ("b", "c", "d")],
}
RIP_DEEP = {
    "three_level": [("a", "b", "c"), ("b", "c", "d"), ("c", "d", "e")],
}


def configs(tier, seed):
    cfgs = []
    sizes4 = {"a": 2, "b": 2, "c": 3, "d": 2, "e": 2}
    for name, cl in NORM_SETS.items():
        for impl in ("region", "factor"):
            for iters in (1, 2):
                for start in ("initial", "arbitrary"):
                    heavy = iters == 2 and start == "arbitrary"
                    if tier == "quick" and heavy and name in ("cycle4", "overlap3", "nested"):
                        continue
                    cfgs.append(dict(name="norm:%s:%s:i%d:%s" % (impl, name, iters, start), kind="norm", impl=impl, cliques=cl, iters=iters,
                                     start=start, sizes=sizes4, cost=4 * iters, core=not heavy, timeout=600))
    for name, (cl, diam) in TREE_FG.items():
        for extra in (0, 1, 2):
            cfgs.append(dict(name="lbp_exact:%s:sweeps%d" % (name, diam // 2 + extra), kind="lbp", cliques=cl, iters=diam // 2 + extra,
                             sizes=sizes4, cost=6, timeout=900))
    for name, cl in RIP_SETS.items():
        if name == "chain4" and tier == "quick":
            continue
        if name == "star_orders" and tier == "quick":
            continue
        if name == "chain4":
            continue              # 4 maximal cliques: nlsat does not answer within 40 min (measured); outside the bound
        cfgs.append(dict(name="gbp_fixpoint:%s" % name, kind="gbp", cliques=cl, sizes=sizes4 if name != "star_orders" else {k: 2 for k in "abcde"},
                         seppot=False, cost=10, timeout=2400 if name in ("chain4", "star_orders") else 900, core=name not in ("chain4", "star_orders")))
    if tier == "thorough":
        for name, cl in RIP_SETS.items():
            if name == "chain4":
                continue          # > 15 min without an answer (measured); not run
            cfgs.append(dict(name="gbp_fixpoint:%s:separator_potentials" % name, kind="gbp", cliques=cl,
                             sizes=sizes4 if name != "star_orders" else {k: 2 for k in "abcde"}, seppot=True, cost=10, timeout=900, core=False))
        # RIP_DEEP (3-level region graph ABC,BCD,CDE) did not finish in 30 min (measured) and is not run; stated as outside the bound
    return cfgs


def dom_for(mbi, cfg):
    attrs = sorted({a for cl in cfg["cliques"] for a in cl})
    return attrs, mbi.Domain(attrs, [cfg["sizes"][a] for a in attrs])


def sym_msg(V, mbi, dom, attrs, name):
    d = dom.project(attrs)
    return mbi.Factor(d, V.array(d.shape, lambda idx: V.logv("%s_%s" % (name, "".join(map(str, idx))))))


def norm_checks(V, T, mu, N, tag):
    for cl, F in mu.items():
        T.append(("%ssum[%s]" % (tag, "".join(cl)), F.sum(), N))
        for idx, g in common.factor_cells(F):
            T.append(("%snonneg[%s]%s" % (tag, "".join(cl), "".join(map(str, idx))), V.ge(g, 0), True))


def scenario_for(cfg):
    cliques = [tuple(c) for c in cfg["cliques"]]

    def norm_scenario(V):
        mbi = common.mbi_for(V)
        attrs, dom = dom_for(mbi, cfg)
        N = V.real("N", "p")
        T = []
        if cfg["impl"] == "region":
            model = mbi.RegionGraph(dom, cliques, total=N, convex=False, iters=cfg["iters"])
            pots, _ = common.sym_potentials(V, mbi, dom, model.cliques, shift=False)
            if cfg["start"] == "arbitrary":
                for (ru, rd) in list(model.messages.keys()):
                    model.messages[ru, rd] = sym_msg(V, mbi, dom, model.messages[ru, rd].domain.attrs, "M_%s_%s" % ("".join(ru), "".join(rd)))
            mu = model.belief_propagation(pots)
            T.append(("keys", tuple(sorted(mu.keys())), tuple(sorted(model.cliques))))
            norm_checks(V, T, mu, N, "")
            mu2 = model.belief_propagation(pots)          # warm messages persist between calls
            norm_checks(V, T, mu2, N, "second_call:")
        else:
            model = mbi.FactorGraph(dom, cliques, total=N, convex=False, iters=cfg["iters"])
            pots, _ = common.sym_potentials(V, mbi, dom, cliques, shift=False)
            if cfg["start"] == "arbitrary":
                mu_n, mu_f = model.messages
                for cl in cliques:
                    for v in cl:
                        mu_n[v][cl] = sym_msg(V, mbi, dom, (v,), "Mn_%s_%s" % (v, "".join(cl)))
                        mu_f[cl][v] = sym_msg(V, mbi, dom, (v,), "Mf_%s_%s" % ("".join(cl), v))
            mu = model.belief_propagation(pots)
            T.append(("keys", tuple(sorted(mu.keys())), tuple(sorted(set(cliques)))))
            norm_checks(V, T, mu, N, "")
            for a in attrs:
                F = model.project((a,))
                T.append(("project(%s):sum" % a, F.sum(), N))
        return T

    def lbp_scenario(V):
        mbi = common.mbi_for(V)
        attrs, dom = dom_for(mbi, cfg)
        N = V.real("N", "p")
        T = []
        model = mbi.FactorGraph(dom, cliques, total=N, convex=False, iters=cfg["iters"])
        pots, tabs = common.sym_potentials(V, mbi, dom, cliques, shift=False)
        J = common.Joint(V, attrs, [dom.config[a] for a in attrs], tabs)
        mu = model.belief_propagation(pots)
        for cl in cliques:
            for idx, g in common.factor_cells(mu[cl]):
                T.append(("exact[%s]%s" % ("".join(cl), "".join(map(str, idx))), g, J.marginal(mu[cl].domain.attrs, idx, N)))
        return T

    def gbp_scenario(V):
        mbi = common.mbi_for(V)
        attrs, dom = dom_for(mbi, cfg)
        N = V.real("N", "p")
        T = []
        model = mbi.RegionGraph(dom, cliques, total=N, convex=False, iters=1)
        maximal = [tuple(r) for r in model.cliques if not any(set(r) < set(s) for s in model.cliques)]
        withpot = list(model.cliques) if cfg["seppot"] else maximal
        pots, tabs = common.sym_potentials(V, mbi, dom, withpot, shift=False)
        for r in model.cliques:
            if r not in pots:
                pots[r] = mbi.Factor.zeros(dom.project(r))
        J = common.Joint(V, attrs, [dom.config[a] for a in attrs], tabs)
        before = {}
        for key in list(model.messages.keys()):
            if key in [(ru, rd) for ru, rd in model.message_order]:
                model.messages[key] = sym_msg(V, mbi, dom, model.messages[key].domain.attrs, "M_%s_%s" % ("".join(key[0]), "".join(key[1])))
                before[key] = model.messages[key]
        mu = model.belief_propagation(pots)
        # fixed point: one sweep left every message unchanged (up to its normalisation, which the update fixes: sum exp(message) == 1)
        if V.symbolic:
            for key, M0 in before.items():
                M1 = model.messages[key]
                for idx in np.ndindex(*M0.values.shape) if M0.values.ndim else [()]:
                    a0, a1 = SL.lift(M0.values[idx]), SL.lift(M1.values[idx])
                    n0, d0 = a0.vfrac()
                    n1, d1 = a1.vfrac()
                    ST.assume(core.expand_defs(n0 * d1 == n1 * d0))
        else:
            # floats: iterate the real code to (numerical) convergence instead
            model2 = mbi.RegionGraph(dom, cliques, total=N, convex=False, iters=200)
            mu = model2.belief_propagation(pots)
        for r in model.cliques:
            for idx, g in common.factor_cells(mu[r]):
                T.append(("fixpoint_exact[%s]%s" % ("".join(r), "".join(map(str, idx))), g, J.marginal(mu[r].domain.attrs, idx, N)))
        return T
    return {"norm": norm_scenario, "lbp": lbp_scenario, "gbp": gbp_scenario}[cfg["kind"]]


def run_config(cfg):
    res = Result(cfg)
    mbi = common.mbi_for(True)
    RG, FG = mbi.RegionGraph, mbi.FactorGraph
    res.functions = shims.fn_fingerprint(RG.__init__, RG.build_graph, RG.generalized_belief_propagation, FG.__init__, FG.loopy_belief_propagation,
                                         FG.clique_marginals, FG.init_messages, FG.project)
    values.run_scenario(res, scenario_for(cfg), rng=harness.rng_for(cfg), timeout_ms=120000 if cfg["kind"] == "gbp" else 60000,
                        fidelity=cfg["kind"] != "gbp", max_paths=8)
    return res


def finding_key(c):
    what = c.get("what", "").split("[")[0]
    cfg = c["config"]
    if c.get("kind") in ("exception", "poison"):
        what = c.get("kind") + ":" + str(c.get("where", c.get("why", "")))[:70]
    kind = cfg["kind"] + ("_separator_potentials" if cfg.get("seppot") else "")
    return "%s:%s:%s" % (kind, cfg["name"].split(":")[1], what)


def replay(c):
    return values.replay_scenario(scenario_for(c["config"]), c, tol=1e-5)


if __name__ == "__main__":
    harness.main(sys.modules[__name__])

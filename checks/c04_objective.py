"""C04 -- the optimised objective, its gradient and the smoothness constant are the stated ones.

fix_measurements, _setup (grouping), _marginal_loss (L2 and L1) and _lipschitz of the real FactoredInference run with every
y, every noise scale, the marginal tables, directions and (for dense queries) the query-matrix entries symbolic.
"""
import itertools
import sys

import numpy as np
import z3

from symx import core, harness, shims, solve, values
from symx.core import SR, ST
from symx.harness import Result
from . import common

PROPERTY = "C04"
LEVEL = "model_checking"
TECHNIQUE = ("bounded symbolic execution of the real fix_measurements/_setup/_marginal_loss/_lipschitz; obligations: loss == sum over the caller's "
             "measurements (NRA identity), quadratic identity L(mu+d)-L(mu-d) == 2<g(mu),d> (gradient), L1 subgradient inequality, equality across "
             "spellings, and d'Hd <= Lip*|d|^2 with d'Hd = L(mu+d)+L(mu-d)-2L(mu) taken from the real loss; all decided by z3")
BOUNDS = {
    "quick": "domain a,b,c sizes (2,3,2) and (2,2,2); 10 measurement families (disjoint, overlapping, nested, duplicated, permuted projections, "
             "triangle, rank-deficient / total / prefix / symbolic dense queries), 1-4 measurements each; spellings dense/sparse/operator/None x "
             "tuple/list/str; metrics L2 and L1",
    "thorough": "quick + sizes (3,2,2),(1,2,3) + every permutation of each measurement list",
}
OUTSIDE = ("ARPACK's accuracy (eigsh runs concretely on the concrete query patterns; its float answer is used with 1e-9 relative slack); "
           "float associativity; torch backend; callable metrics")
ASSUMPTIONS = ["real-number semantics", "total is supplied (the total estimate is C09)", "noise scales > 0",
               "query patterns / projections / spellings are enumerated; y, sigma, marginals, directions, dense query entries are symbolic"]
SHIMS_USED = ["np.zeros/np.ones", "np.sign", "float", "sparse @ object-array"]

# name -> list of (proj, query kind)    query kinds: I identity, P prefix(lower-tri ones), T total row, R rank-deficient 2-row, S symbolic dense (2 rows)
FAMILIES = {
    "oneway": [(("a",), "I"), (("b",), "I"), (("c",), "I")],
    "overlap": [(("a", "b"), "I"), (("b", "c"), "I"), (("b",), "P")],
    "nested_perm": [(("a", "b"), "I"), (("a",), "T"), (("b", "a"), "S")],
    "duplicated": [(("b", "c"), "I"), (("b", "c"), "P"), (("c", "b"), "I")],
    "nondomain_order": [(("c", "a"), "S")],
    "triangle": [(("a", "b"), "I"), (("b", "c"), "R"), (("c", "a"), "I")],
    "rankdef_total": [(("b",), "R"), (("b",), "T"), (("a", "c"), "T")],
    "lipschitz_split": [(("a",), "I"), (("a", "c"), "I"), (("a", "b"), "I")],
    "lipschitz_split2": [(("b",), "P"), (("c", "b"), "I"), (("a", "b"), "I"), (("b",), "I")],
    "single3": [(("a", "b", "c"), "T"), (("c", "b", "a"), "R")],
}


def configs(tier, seed):
    cfgs = []
    sizes_list = [(2, 3, 2), (2, 2, 2)] if tier == "quick" else [(2, 3, 2), (2, 2, 2), (3, 2, 2), (1, 2, 3)]
    for sizes in sizes_list:
        for fam, ms in FAMILIES.items():
            perms = [list(range(len(ms)))]
            if tier == "thorough":
                perms = [list(p) for p in itertools.permutations(range(len(ms)))][:6]
            for pi, perm in enumerate(perms):
                for metric in ("L2", "L1"):
                    cfgs.append(dict(name="%s:%s:%s:p%d" % (fam, sizes, metric, pi), fam=fam, sizes=sizes, metric=metric, perm=perm,
                                     part="loss", cost=3))
                if min(sizes) >= 2:
                    cfgs.append(dict(name="%s:%s:lipschitz:p%d" % (fam, sizes, pi), fam=fam, sizes=sizes, metric="L2", perm=perm,
                                     part="lipschitz", cost=6))
    return cfgs


def qmatrix(V, kind, n, tag):
    """dense query matrix (rows x n) as a list-of-lists of python floats or symbolic entries"""
    if kind == "I":
        return [[1.0 if i == j else 0.0 for j in range(n)] for i in range(n)]
    if kind == "P":
        return [[1.0 if j <= i else 0.0 for j in range(n)] for i in range(n)]
    if kind == "T":
        return [[1.0] * n]
    if kind == "R":
        return [[1.0 if j == 0 else 0.0 for j in range(n)], [2.0 if j == 0 else 0.0 for j in range(n)]] if n > 1 else [[1.0], [2.0]]
    if kind == "S":
        return [[V.real("%s_q%d%d" % (tag, i, j)) for j in range(n)] for i in range(2)]
    raise ValueError(kind)


def as_array(V, rows, concrete):
    r, c = len(rows), len(rows[0])
    if concrete:
        return np.array(rows, dtype=float)
    a = np.empty((r, c), dtype=object if V.symbolic else float)
    for i in range(r):
        for j in range(c):
            a[i, j] = rows[i][j]
    return a


def build_measurements(V, mbi, dom, cfg, spelling="dense", projspell="tuple"):
    """-> (list handed to the code, oracle description [(rows, y, sigma, proj)])"""
    from scipy import sparse
    from scipy.sparse.linalg import aslinearoperator
    ms = [FAMILIES[cfg["fam"]][i] for i in cfg["perm"]]
    given, oracle = [], []
    for k, (proj, kind) in enumerate(ms):
        k0 = cfg["perm"][k]
        n = dom.size(proj)
        rows = qmatrix(V, kind, n, "m%d" % k0)
        concrete = kind != "S"
        y = V.array((len(rows),), lambda idx: V.real("y%d_%d" % (k0, idx[0])))
        sigma = V.real("sg%d" % k0, "p")
        Q = as_array(V, rows, concrete)
        sp = spelling
        if sp == "none" and kind != "I":
            sp = "dense"
        if not concrete and sp in ("sparse",):
            sp = "dense"
        if sp == "dense":
            Qg = Q
        elif sp == "sparse":
            Qg = sparse.csr_matrix(Q)
        elif sp == "operator":
            Qg = aslinearoperator(Q)
        elif sp == "none":
            Qg = None
        p = proj
        if projspell == "list":
            p = list(proj)
        elif projspell == "str" and len(proj) == 1:
            p = proj[0]
        given.append((Qg, y, sigma, p))
        oracle.append((rows, y, sigma, tuple(proj)))
    return given, oracle


def table(V, dom, attrs, prefix, sg=None):
    tab = {}

    def cell(idx):
        v = V.real("%s_%s" % (prefix, "".join(map(str, idx))), sg)
        tab[idx] = v
        return v
    arr = V.array(dom.project(attrs).shape, cell)
    return arr, tab


def oracle_loss(V, dom, attrs, sizes, P, oracle, metric):
    """sum over the caller's measurements, each exactly once, of the residual norm of Q applied to the marginal of the joint P"""
    total = 0.0
    for rows, y, sigma, proj in oracle:
        pos = [attrs.index(a) for a in proj]
        shape = tuple(sizes[p] for p in pos)
        mu = []
        for idx in np.ndindex(*shape):
            mu.append(V.sum([v for x, v in P.items() if all(x[p] == i for p, i in zip(pos, idx))]))
        for r, row in enumerate(rows):
            res = V.sum([row[j] * mu[j] for j in range(len(mu))]) - y[r]
            res = res / sigma
            total = total + (abs(res) if metric == "L1" else 0.5 * res * res)
    return total


def scenario_for(cfg):
    attrs, sizes = ["a", "b", "c"], tuple(cfg["sizes"])
    metric = cfg["metric"]

    def consistent_marginals(V, mbi, dom, model, P):
        mu = {}
        for cl in model.cliques:
            pos = [attrs.index(a) for a in cl]
            d = dom.project(cl)
            arr = V.array(d.shape, lambda idx: V.sum([v for x, v in P.items() if all(x[p] == i for p, i in zip(pos, idx))]))
            mu[cl] = mbi.Factor(d, arr)
        return mbi.CliqueVector(mu)

    def free_vector(V, mbi, dom, model, prefix):
        out = {}
        for cl in model.cliques:
            arr, _ = table(V, dom, cl, prefix + "".join(cl))
            out[cl] = mbi.Factor(dom.project(cl), arr)
        return mbi.CliqueVector(out)

    def loss_scenario(V):
        mbi = common.mbi_for(V)
        from mbi import FactoredInference
        dom = mbi.Domain(attrs, sizes)
        N = V.real("N", "p")
        T = []
        _, P = table(V, dom, attrs, "P")
        base = {}
        shared = None
        for spelling, projspell in [("dense", "tuple"), ("sparse", "list"), ("operator", "tuple"), ("none", "str")]:
            # 'operator' and 'none' re-use the estimator object of the 'dense' call: the loss of a call is about the measurements
            # supplied to *that* call, whatever the object was used for before
            if spelling in ("operator", "none") and shared is not None:
                eng = shared
            else:
                eng = FactoredInference(dom, metric=metric, iters=1)
            if spelling == "dense":
                shared = eng
            given, oracle = build_measurements(V, mbi, dom, cfg, spelling, projspell)
            keep = list(given)
            ms = eng.fix_measurements(given)
            T.append(("%s:caller_list_untouched" % spelling, len(given) == len(keep) and all(g is k for g, k in zip(given, keep)), True))
            eng._setup(ms, N)
            ngrouped = sum(len(v) for v in eng.groups.values())
            T.append(("%s:each_measurement_grouped_once" % spelling, ngrouped, len(given)))
            mu = consistent_marginals(V, mbi, dom, eng.model, P)
            loss, grad = eng._marginal_loss(mu)
            if spelling == "dense":
                if metric == "L2":
                    T.append(("loss_is_sum_over_measurements", loss, oracle_loss(V, dom, attrs, sizes, P, oracle, metric)))
                else:
                    # L1: per grouped measurement (noise scale factors out => linear arithmetic), plus additivity below
                    from collections import defaultdict
                    groups = eng.groups
                    seen = []
                    for cl in list(groups.keys()):
                        for m in groups[cl]:
                            k = next(i for i, o in enumerate(oracle) if o[1] is m[1])
                            seen.append(k)
                            g1 = defaultdict(list)
                            g1[cl] = [m]
                            eng.groups = g1
                            lm_, _ = eng._marginal_loss(mu)
                            T.append(("loss_term_is_stated_one[m%d]" % k, lm_, oracle_loss(V, dom, attrs, sizes, P, [oracle[k]], metric)))
                    eng.groups = groups
                    T.append(("each_measurement_counted_once", tuple(sorted(seen)), tuple(range(len(oracle)))))
                base = {"loss": loss, "grad": grad, "cliques": list(eng.model.cliques)}
                # gradient = derivative of that loss (as a function of the clique vector)
                m0 = free_vector(V, mbi, dom, eng.model, "u")
                d = free_vector(V, mbi, dom, eng.model, "d")
                l0, g0 = eng._marginal_loss(m0)
                if metric == "L2":
                    lp, _ = eng._marginal_loss(m0 + d)
                    lm, _ = eng._marginal_loss(m0 - d)
                    T.append(("gradient_is_derivative", lp - lm, 2 * g0.dot(d)))
                else:
                    # L1: the subgradient inequality L(mu+d) >= L(mu) + <g(mu), d> is decided per grouped measurement (the noise scale
                    # then factors out and the query is linear arithmetic with If-terms); additivity of loss and gradient over the
                    # grouped measurements is a separate identity.
                    from collections import defaultdict
                    groups = eng.groups
                    lsum, gsum = 0, None
                    k = 0
                    for cl in list(groups.keys()):
                        for m in groups[cl]:
                            g1 = defaultdict(list)
                            g1[cl] = [m]
                            eng.groups = g1
                            a0, ga = eng._marginal_loss(m0)
                            a1, _ = eng._marginal_loss(m0 + d)
                            T.append(("subgradient_inequality[m%d]" % k, V.ge(a1, a0 + ga.dot(d)), True))
                            lsum = lsum + a0
                            gsum = ga if gsum is None else gsum + ga
                            k += 1
                    eng.groups = groups
                    T.append(("loss_additive_over_grouped_measurements", l0, lsum))
                    if gsum is not None:
                        for cl in eng.model.cliques:
                            for idx, g in common.factor_cells(g0[cl]):
                                T.append(("grad_additive[%s]%s" % ("".join(cl), idx), g, gsum[cl].values[idx]))
                T.append(("gradient_keys", tuple(sorted(g0.keys())), tuple(sorted(eng.model.cliques))))
            else:
                T.append(("%s:same_loss" % spelling, loss, base["loss"]))
                T.append(("%s:same_cliques" % spelling, tuple(eng.model.cliques), tuple(base["cliques"])))
                for cl in base["cliques"]:
                    if cl in grad:
                        for idx, g in common.factor_cells(grad[cl]):
                            T.append(("%s:same_grad[%s]%s" % (spelling, "".join(cl), idx), g, base["grad"][cl].values[idx]))
        return T

    return loss_scenario


def free_vector_(V, mbi, dom, model, prefix):
    out = {}
    for cl in model.cliques:
        arr, _ = table(V, dom, cl, prefix + "".join(cl))
        out[cl] = mbi.Factor(dom.project(cl), arr)
    return mbi.CliqueVector(out)


def run_lipschitz(cfg, res):
    """d'Hd <= L |d|^2, decomposed so that every step is a small solver query:
       (1) d'Hd == sum_m t_m          t_m = quadratic form of measurement m alone, *as grouped by the real _setup*
       (2) t_m * sigma_m^2 <= lam_m * (n_cl/p_m) * |d_cl|^2     (concrete coefficients; lam_m = top eigenvalue of Q_m'Q_m, numpy)
       (3) with t_m, |d_cl|^2 abstracted to fresh non-negative variables constrained by (2):  sum_m t_m <= L_code * sum_cl |d_cl|^2
       where L_code is the term returned by the real _lipschitz (max over cliques -> path forks)."""
    attrs, sizes = ["a", "b", "c"], tuple(cfg["sizes"])
    mbi = common.mbi_for(True)
    from mbi import FactoredInference
    store = {}

    def once():
        V = values.SymVals()
        dom = mbi.Domain(attrs, sizes)
        N = V.real("N", "p")
        eng = FactoredInference(dom, metric="L2", iters=1)
        given, oracle = build_measurements(V, mbi, dom, cfg, "dense", "tuple")
        ms = eng.fix_measurements(given)
        eng._setup(ms, N)
        lip = eng._lipschitz(ms)
        model = eng.model
        d = free_vector_(V, mbi, dom, model, "d")
        zero = mbi.CliqueVector({cl: mbi.Factor.zeros(dom.project(cl)) for cl in model.cliques})

        def qform():
            l0, _ = eng._marginal_loss(zero)
            lp, _ = eng._marginal_loss(d)
            lm, _ = eng._marginal_loss(-1 * d)
            return lp + lm - 2 * l0
        dHd = qform()
        groups = eng.groups
        parts = []
        for cl in list(groups.keys()):
            for m in groups[cl]:
                from collections import defaultdict
                g = defaultdict(list)
                g[cl] = [m]
                eng.groups = g
                parts.append((cl, m, qform()))
        eng.groups = groups
        tot = 0
        for _, _, t in parts:
            tot = tot + t
        v, model_, _ = solve.prove_eq(dHd, tot)
        res.ob(v, "quadratic_form_decomposes_over_grouped_measurements", {"kind": "model", "env": solve.model_env(model_)} if v == "sat" else None)
        res.ob("unsat" if len(parts) == len(ms) else "sat", "every_measurement_grouped_exactly_once", {"kind": "structural"})
        Dv, assumptions, Tsum = {}, [], 0
        for k, (cl, m, t) in enumerate(parts):
            Q, y, sigma, proj = m
            lam = float(np.linalg.eigvalsh(np.asarray(Q, dtype=float).T @ np.asarray(Q, dtype=float)).max()) * (1 + 1e-9)
            coef = lam * dom.size(cl) / dom.size(proj)
            dcl = (d[cl] * d[cl]).sum()
            goal = V.le(t * sigma * sigma, coef * dcl)
            if isinstance(goal, bool):
                res.ob("unsat" if goal else "sat", "lemma[%d]" % k, {"kind": "structural"})
            else:
                v, mo, _ = solve.prove(goal.t, timeout_ms=60000)
                res.ob(v, "lemma:|Q P d|^2 <= lam n/p |d|^2 [%s <- %s]" % ("".join(cl), "".join(proj)),
                       {"kind": "model", "env": solve.model_env(mo)} if v == "sat" else None)
            if cl not in Dv:
                Dv[cl] = SR.var("D_%s" % "".join(cl), "nn")
            Tm = SR.var("T_%d" % k, "nn")
            b = Tm * sigma * sigma <= coef * Dv[cl]
            assumptions.append(b.t if isinstance(b, core.SB) else z3.BoolVal(bool(b)))
            Tsum = Tsum + Tm
        Dsum = 0
        for cl in model.cliques:
            if cl not in Dv:
                Dv[cl] = SR.var("D_%s" % "".join(cl), "nn")
            Dsum = Dsum + Dv[cl]
        goal = Tsum <= lip * Dsum * (1 + 1e-6)
        if isinstance(goal, bool):
            res.ob("unsat" if goal else "sat", "smoothness_bound", {"kind": "structural"})
        else:
            v, mo, _ = solve.prove(goal.t, extra=assumptions, timeout_ms=60000)
            res.ob(v, "smoothness_bound: sum_m t_m <= L * |d|^2", {"kind": "model", "env": solve.model_env(mo)} if v == "sat" else None)
        nn = lip >= 0
        if not isinstance(nn, bool):
            v, mo, _ = solve.prove(nn.t)
            res.ob(v, "L_nonneg")
        store["lip"] = (lip, list(ST.pathcond), dict(ST.evar_of), dict(ST.roots))
        if len(res.samples) < 2:
            res.samples.append({"obligation": "smoothness_bound", "L_code": repr(lip), "path_condition": [str(c)[:100] for c in ST.pathcond][:3],
                                "groups": {"".join(cl): ["".join(m[3]) for m in ml] for cl, ml in groups.items()}})
        return 1

    ex = solve.Explorer(max_paths=40)
    outs = ex.run(once)
    res.paths += len(outs)
    for kind, taken, out in outs:
        if kind == "bound":
            res.unknown.append({"what": "path bound: %s" % out})
    # fidelity: the symbolic L, evaluated at a concrete point on a path whose condition holds there, equals the real _lipschitz
    rng = harness.rng_for(cfg)
    F = values.FloatVals(rng=rng)
    with shims.shims_off():
        m2 = shims.load_mbi()
        dom = m2.Domain(attrs, sizes)
        eng = m2.FactoredInference(dom, metric="L2", iters=1)
        given, _ = build_measurements(F, m2, dom, cfg, "dense", "tuple")
        ms = eng.fix_measurements(given)
        eng._setup(ms, F.real("N", "p"))
        real = float(eng._lipschitz(ms))
    return real, F.env


def run_config(cfg):
    res = Result(cfg)
    mbi = common.mbi_for(True)
    FI = mbi.FactoredInference
    res.functions = shims.fn_fingerprint(FI.fix_measurements, FI._setup, FI._marginal_loss, FI._lipschitz, mbi.Factor.project,
                                         mbi.CliqueVector.dot, mbi.CliqueVector.__add__, mbi.CliqueVector.__sub__)
    if cfg["part"] == "lipschitz":
        if cfg["fam"] in ("nested_perm", "nondomain_order"):
            # symbolic dense queries: eigsh cannot run on them; the smoothness clause is checked on the concrete-pattern families
            res.notes.append("skipped: symbolic query entries")
            res.obligations = res.discharged = 1
            return res
        run_lipschitz(cfg, res)
        return res
    values.run_scenario(res, scenario_for(cfg), rng=harness.rng_for(cfg), timeout_ms=60000, max_paths=40)
    return res


def finding_key(c):
    what = c.get("what", "").split("[")[0]
    if c.get("kind") in ("exception", "poison"):
        what = c.get("kind") + ":" + str(c.get("where", c.get("why", "")))[:60]
    return "%s:%s" % (c["config"]["fam"], what)


def replay(c):
    cfg = c["config"]
    if cfg["part"] == "lipschitz":
        return replay_lipschitz(cfg, c)
    return values.replay_scenario(scenario_for(cfg), c)


def replay_lipschitz(cfg, c):
    """independent float oracle: assemble the Hessian of the real loss by finite differences of the real gradient and take its top eigenvalue"""
    import random
    mbi = common.mbi_for(False)
    from mbi import FactoredInference
    attrs, sizes = ["a", "b", "c"], tuple(cfg["sizes"])
    rng = random.Random(5)
    envs = [dict(c.get("env") or {})] + [None, None]
    for env in envs:
        F = values.FloatVals(env=env, rng=rng)
        dom = mbi.Domain(attrs, sizes)
        eng = FactoredInference(dom, metric="L2", iters=1)
        given, _ = build_measurements(F, mbi, dom, cfg, "dense", "tuple")
        ms = eng.fix_measurements(given)
        eng._setup(ms, 10.0)
        lip = float(eng._lipschitz(ms))
        cliques = eng.model.cliques
        offs, n = {}, 0
        for cl in cliques:
            offs[cl] = n
            n += dom.size(cl)

        def grad_at(vec):
            mu = mbi.CliqueVector({cl: mbi.Factor(dom.project(cl), vec[offs[cl]:offs[cl] + dom.size(cl)].copy()) for cl in cliques})
            _, g = eng._marginal_loss(mu)
            return np.concatenate([g[cl].values.flatten() for cl in cliques])
        g0 = grad_at(np.zeros(n))
        H = np.array([grad_at(np.eye(n)[i]) - g0 for i in range(n)])
        top = float(np.linalg.eigvalsh((H + H.T) / 2).max())
        if top > lip * (1 + 1e-6) + 1e-9:
            return {"reproduced": True, "detail": "_lipschitz returned %.6g but the Hessian of the real loss has top eigenvalue %.6g" % (lip, top),
                    "inputs": F.env}
    return {"reproduced": False, "detail": "Hessian top eigenvalue within the returned constant at 3 points"}


if __name__ == "__main__":
    harness.main(sys.modules[__name__])

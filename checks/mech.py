"""shared machinery of C05 / C06: lock-step execution of a mechanism driver on a neighbouring pair (D, D')

Both runs happen on ONE explorer path.  Everything the mechanism may legitimately observe is made identical by construction:
  * every noisy release  x + noise  is replaced by fresh symbols  Y!k_i  (same names in both runs), the operand x being recorded;
  * every private selection forks over all candidates on Boolean constants pick!k!i, so both runs take the same outcome;
  * the estimator is havoc'd: answers of the model returned by the j-th estimate call are fresh symbols m!j!<clique>!i, after its
    arguments were recorded (C06 demands that they are identical terms in both runs);
  * cdp_rho is a fresh rho > 0 (its own soundness is C07).
Privacy cost is charged from what was actually recorded (operands, scales, probability vectors).
"""
import itertools
import math
import os
import sys
import types

import numpy as np
import z3

from symx import core, shims, solve, values
from symx.core import SR, ST, Sym
from . import common


class Release:
    """the token returned by normal()/laplace(): adding it to the operand yields the released (havoc'd) values"""

    def __init__(self, rec, ev):
        self.rec = rec
        self.ev = ev
        self.i = 0

    def _one(self, x):
        ev = self.ev
        i = self.i
        self.i += 1
        ev["operand"].append(x)
        return self.rec.release_value(ev, i)

    def __radd__(self, x):
        if isinstance(x, np.ndarray):
            out = np.empty(x.shape, dtype=object if self.rec.V.symbolic else float)
            for idx in np.ndindex(x.shape):
                out[idx] = self._one(x[idx])
            return out
        return self._one(x)

    __add__ = __radd__
    __array_ufunc__ = None       # numpy defers  ndarray + token  to token.__radd__(ndarray)


class Divergence(Exception):
    """the run on D' left the lock-step of the run on D (different event kind / size / noise scale at the same position)"""


class MechRecorder:
    """stands in for numpy.random in the mechanism modules"""

    def __init__(self, V, run_id, picks, reference=None):
        self.V = V
        self.run_id = run_id
        self.picks = picks        # shared between the two runs: event index -> chosen candidate
        self.events = []
        self.reference = reference    # events of the run on D (for the run on D'): divergence is detected as soon as it happens

    def _check_lockstep(self, ev):
        ref = self.reference
        if ref is None or not self.V.symbolic:
            return
        k = ev["k"]
        if k >= len(ref):
            raise Divergence("event %d (%s) has no counterpart in the run on D" % (k, ev["kind"]))
        r = ref[k]
        if r["kind"] != ev["kind"]:
            raise Divergence("event %d is %s on D but %s on D'" % (k, r["kind"], ev["kind"]))
        if ev["kind"] in ("gauss", "laplace"):
            a, b = r["scale"], ev["scale"]
            same = (a is b) or values._same_term(a, b) or (not isinstance(a, Sym) and not isinstance(b, Sym) and a == b)
            if not same:
                v, _, _ = solve.prove_eq(a, b, timeout_ms=10000)
                if v != "unsat":
                    raise Divergence("event %d: noise scale on D' is not the scale used on D" % k)
            if r["size"] != ev["size"]:
                raise Divergence("event %d: %s values released on D, %s on D'" % (k, r["size"], ev["size"]))
        if ev["kind"] == "select" and r["n"] != ev["n"]:
            raise Divergence("event %d: %d candidates on D, %d on D'" % (k, r["n"], ev["n"]))

    # --- noise ------------------------------------------------------------------------------------------
    def _noise(self, kind, loc, scale, size):
        ev = {"kind": kind, "scale": scale, "size": size, "operand": [], "k": len(self.events)}
        if not (isinstance(loc, (int, float)) and loc == 0):
            raise core.SymError("noise with non-zero location")
        self.events.append(ev)
        self._check_lockstep(ev)
        return Release(self, ev)

    def normal(self, loc=0.0, scale=1.0, size=None):
        return self._noise("gauss", loc, scale, size)

    def laplace(self, loc=0.0, scale=1.0, size=None):
        return self._noise("laplace", loc, scale, size)

    def release_value(self, ev, i):
        name = "Y!%d_%d" % (ev["k"], i)
        if self.V.symbolic:
            return SR.var(name)
        # floats: the same released value in both runs, whatever the operand (premise of C06)
        if name not in self.V.env:
            self.V.env[name] = 7.0 + ((ev["k"] * 7 + i * 3) % 5) if not getattr(self.V, "randomize", False) else self.V.rng.uniform(-2, 12)
        return float(self.V.env[name])

    # --- selections ---------------------------------------------------------------------------------------
    def choice(self, a, size=None, replace=True, p=None):
        n = a if isinstance(a, (int, np.integer)) else len(a)
        if p is None:
            # not a private selection (post-processing randomness): deterministic outcome
            self.events.append({"kind": "post", "k": len(self.events)})
            if size is None:
                return 0 if isinstance(a, (int, np.integer)) else a[0]
            idx = np.zeros(int(size), dtype=int)
            return idx if isinstance(a, (int, np.integer)) else np.asarray(a)[idx]
        k = len(self.events)
        ev = {"kind": "select", "p": list(p), "n": int(n), "k": k}
        if self.V.symbolic:
            # the scores whose softmax this p is: the input of the most recent softmax / logsumexp of that length (engine record)
            for rec in reversed(ST.events):
                if rec[0] in ("softmax", "logsumexp") and len(rec[1]) == int(n):
                    ev["scores"] = list(rec[1])
                    break
        self.events.append(ev)
        self._check_lockstep(ev)
        if k not in self.picks:
            self.picks[k] = self._fork(k, int(n))
        ev["chosen"] = self.picks[k]
        return self.picks[k]

    def _fork(self, k, n):
        ex = ST.explorer
        if ex is None or not self.V.symbolic:
            c = PICK_POLICY["f"](k, n)
            for i in range(n - 1):
                self.V.env["pick!%d!%d" % (k, i)] = (i == c)
                if i == c:
                    break
            return c
        for i in range(n - 1):
            if ex.decide(z3.Bool("pick!%d!%d" % (k, i))):
                return i
        return n - 1

    def rand(self, *a):
        raise core.SymError("rand() not modelled")

    def shuffle(self, x):
        return None

    def permutation(self, n):
        return np.arange(n)

    def randint(self, *a, **k):
        raise core.SymError("randint not modelled")


PICK_POLICY = {"f": lambda k, n: 0}


class RNGProxy:
    """what the repo modules see as numpy.random / default prng argument"""

    def __getattr__(self, name):
        cur = shims.RNG["obj"]
        if cur is None:
            return getattr(np.random, name)
        return getattr(cur, name)


RNGP = RNGProxy()


class NPRand(types.ModuleType):
    """numpy with only .random replaced (float runs)"""

    def __init__(self):
        super().__init__("numpy_rand")
        self.__dict__["random"] = RNGP

    def __getattr__(self, name):
        return getattr(np, name)


class SparseProxy(types.ModuleType):
    def __getattr__(self, n):
        import scipy.sparse as sp
        return getattr(sp, n)

    def vstack(self, blocks, **kw):
        import scipy.sparse as sp

        class csrT(sp.csr_matrix):
            @property
            def T(self):
                t = self.__dict__.get("_T_set")
                return t if t is not None else sp.csr_matrix(self).T

            @T.setter
            def T(self, v):
                self.__dict__["_T_set"] = v
        return csrT(sp.vstack(blocks, **kw))


# ----------------------------------------------------------------------------------------------------------
# havoc'd estimator
# ----------------------------------------------------------------------------------------------------------
class EstLog:
    def __init__(self):
        self.calls = []       # per run: list of recorded argument summaries


def sym_floor_int(x=0, *a):
    """int() of a symbolic non-negative quantity (e.g. a havoc'd model total): a variable i with i <= x < i + 1, named after the argument term so
    that both lock-step runs get the same variable for the same term; comparisons on it fork the path as usual"""
    import builtins
    import hashlib
    import z3
    from symx import core
    if isinstance(x, core.Sym):
        t = z3.simplify(x.term())
        i = core.SR.var("int!" + hashlib.sha1(t.sexpr().encode()).hexdigest()[:10])
        core.ST.assume(i.term() <= t)
        core.ST.assume(t < i.term() + 1)
        return i
    return builtins.int(x, *a)


class HavocModel:
    def __init__(self, V, domain, idx, total, cliques, run):
        self.V = V
        self.domain = domain
        self.idx = idx
        self.total = total
        self.cliques = cliques
        self.run = run
        import mbi
        self.size = sum(domain.size(cl) for cl in cliques) if cliques else 0
        self.elimination_order = list(domain.attrs)

    def project(self, cl):
        if isinstance(cl, str):
            cl = (cl,)
        cl = tuple(cl)
        n = self.domain.size(cl)
        V = self.V
        if V.symbolic:
            vals = np.empty(n, dtype=object)
            for i in range(n):
                vals[i] = SR.var("m!%d!%s!%d" % (self.idx, "_".join(map(str, cl)), i), "nn")
        else:
            vals = np.zeros(n)
            for i in range(n):
                nm = "m!%d!%s!%d" % (self.idx, "_".join(map(str, cl)), i)
                if nm not in V.env:
                    V.env[nm] = (1.0 + ((self.idx + i) % 3) * 0.5) if not getattr(V, "randomize", False) else V.rng.uniform(0, 6)
                vals[i] = max(0.0, float(V.env[nm]))
        outer = self

        class Ans:
            domain = outer.domain.project(cl)

            def datavector(self_inner, flatten=True):
                return vals
        return Ans()

    def synthetic_data(self, rows=None, method="round"):
        import pandas as pd
        from mbi import Dataset
        df = pd.DataFrame(np.zeros((2, len(self.domain.attrs)), dtype=int), columns=list(self.domain.attrs))
        self.run["synth_calls"] = self.run.get("synth_calls", 0) + 1
        self.run.setdefault("synth_args", []).append({"rows": rows, "method": method})       # compared between the two runs (C06)
        return Dataset(df, self.domain)


def make_havoc_fi(V, run):
    """a class to shadow FactoredInference with, bound to the current run's log"""

    class HavocFI:
        def __init__(self, domain, **kw):
            self.domain = domain
            self.kw = kw
            self.iters = kw.get("iters", 1000)
            self.model = None
            run["fi_ctor"].append({"domain": (tuple(domain.attrs), tuple(domain.shape)),
                                   "kw": {k: repr(v) for k, v in sorted(kw.items()) if k not in ("structural_zeros",)}})

        def estimate(self, measurements, total=None, engine="MD", callback=None, options={}):
            idx = len(run["est_calls"])
            rec = []
            for Q, y, noise, proj in measurements:
                try:
                    Qd = Q.toarray() if hasattr(Q, "toarray") else (Q.dense_matrix() if hasattr(Q, "dense_matrix") else np.asarray(Q))
                    qsig = (tuple(Qd.shape), tuple(round(float(v), 9) for v in np.asarray(Qd, dtype=float).flat))
                except Exception:
                    qsig = ("opaque", repr(type(Q)))
                rec.append({"Q": qsig, "y": list(np.asarray(y, dtype=object).flat), "noise": noise, "proj": tuple(proj) if not isinstance(proj, str) else (proj,)})
            run["est_calls"].append({"measurements": rec, "total": total, "engine": engine, "domain": (tuple(self.domain.attrs), tuple(self.domain.shape))})
            cliques = [tuple(m[3]) if not isinstance(m[3], str) else (m[3],) for m in measurements]
            if total is None:
                tot = SR.var("T!%d" % idx, "p") if V.symbolic else V.real("T!%d" % idx, "p")      # float runs: the model point's value, else a random positive total (also <= 1)
            else:
                tot = total
            self.model = HavocModel(V, self.domain, idx, tot, cliques, run)
            return self.model
    return HavocFI


# ----------------------------------------------------------------------------------------------------------
# loading + shadowing the mechanism modules
# ----------------------------------------------------------------------------------------------------------
_PREPARED = {}


def prepare(V, name):
    """load mechanisms/<name>.py; route numpy.random (module attribute and default arguments) to RNGP; symbolic numerics if V.symbolic"""
    common.mbi_for(V)
    shims.install_fakes()
    mod = shims.load_mechanism_file(name)
    key = (name, bool(V.symbolic))
    if name not in _PREPARED:
        # default arguments `prng=np.random` were bound at import time
        for obj in list(mod.__dict__.values()):
            fns = []
            if isinstance(obj, types.FunctionType):
                fns.append(obj)
            elif isinstance(obj, type) and obj.__module__ == mod.__name__:
                fns.extend(v for v in obj.__dict__.values() if isinstance(v, types.FunctionType))
            for f in fns:
                if f.__defaults__ and any(d is np.random for d in f.__defaults__):
                    f.__defaults__ = tuple(RNGP if d is np.random else d for d in f.__defaults__)
        shims.shadow(mod, _persist=True, print=lambda *a, **k: None)
        if name == "adaptive_grid":
            # environment stand-in: on the installed scipy `Q.T = sparse.csr_matrix(Q.T)` raises (no setter), so the unchanged mechanism
            # cannot produce any output here; vstack returns a csr subclass with a settable .T (value-neutral) so that it can be analysed
            shims.shadow(mod, _persist=True, sparse=SparseProxy("sparse_proxy"))
        _PREPARED[name] = True
    if V.symbolic and key not in _PREPARED:
        kw = {"np": shims.NPM, "int": sym_floor_int}
        if "softmax" in mod.__dict__:
            kw["softmax"] = shims.sym_softmax
        if "logsumexp" in mod.__dict__:
            kw["logsumexp"] = shims.sym_logsumexp
        shims.shadow(mod, **kw)
        _PREPARED[key] = True
    return mod


class module_env:
    """for the duration of one run: recorder, havoc estimator, rho stub in the module namespaces"""

    def __init__(self, V, mods, rec, run, rho):
        self.V, self.mods, self.rec, self.run, self.rho = V, mods, rec, run, rho

    def __enter__(self):
        self.saved = []
        shims.RNG["obj"] = self.rec
        FI = make_havoc_fi(self.V, self.run)
        for mod in self.mods:
            for k, v in (("FactoredInference", FI), ("cdp_rho", (lambda eps, delta: self.rho))):
                if k in mod.__dict__:
                    self.saved.append((mod, k, mod.__dict__[k]))
                    mod.__dict__[k] = v
            if not self.V.symbolic:
                self.saved.append((mod, "np", mod.__dict__["np"]))
                mod.__dict__["np"] = NPRand()
        return self

    def __exit__(self, *a):
        shims.RNG["obj"] = None
        for mod, k, v in reversed(self.saved):
            mod.__dict__[k] = v
        return False


def new_run():
    return {"est_calls": [], "fi_ctor": []}


# ----------------------------------------------------------------------------------------------------------
# datasets
# ----------------------------------------------------------------------------------------------------------
def dataset(mbi, attrs, sizes, records):
    import pandas as pd
    df = pd.DataFrame(np.array(records, dtype=int).reshape(len(records), len(attrs)), columns=list(attrs))
    return mbi.Dataset(df, mbi.Domain(list(attrs), list(sizes)))


# ----------------------------------------------------------------------------------------------------------
# accounting
# ----------------------------------------------------------------------------------------------------------
def sym_abs(x):
    return abs(x)


def sym_max(V, xs):
    xs = list(xs)
    if not xs:
        return 0.0
    if not V.symbolic:
        return max(xs)
    out = SR.lift(xs[0]) if not isinstance(xs[0], SR) else xs[0]
    for x in xs[1:]:
        x = SR.lift(x) if not isinstance(x, SR) else x
        if out.is_const() and x.is_const():
            out = out if out.constval() >= x.constval() else x
            continue
        com = core._common(out.f, x.f)
        a = core._poly(out.n, core._fmul(out.f, com, -1))
        b = core._poly(x.n, core._fmul(x.f, com, -1))
        out = SR(z3.If(a >= b, a, b), com, "nn" if (out.sg in ("p", "nn", "z") or x.sg in ("p", "nn", "z")) else None)
    return out


def exponent_of(p):
    """exp-free part and exponent of a captured probability (symbolic)"""
    f_rest, X = {}, core.R(0)
    for k, (t, pw) in p.f.items():
        nm = str(t)
        if nm in ST.evar_of:
            X = X + ST.evar_of[nm] * core.R(pw)
        else:
            f_rest[k] = (t, pw)
    return SR(p.n, f_rest, p.sg), SR(z3.simplify(X))


def charges(V, evD, evD2, zcdp=True):
    """-> (list of (label, charge), list of structural triples).  zcdp: charges in rho; else in pure epsilon"""
    out, T = [], []
    T.append(("same number of events", len(evD), len(evD2)))
    for a, b in zip(evD, evD2):
        k = a["k"]
        T.append(("event %d: same kind" % k, a["kind"], b["kind"]))
        if a["kind"] != b["kind"]:
            continue
        if a["kind"] in ("gauss", "laplace"):
            T.append(("event %d: same noise scale" % k, a["scale"], b["scale"]))
            T.append(("event %d: same size" % k, len(a["operand"]), len(b["operand"])))
            if len(a["operand"]) != len(b["operand"]):
                continue
            diffs = [x - y for x, y in zip(a["operand"], b["operand"])]
            if a["kind"] == "gauss":
                sq = V.sum([d * d for d in diffs]) if diffs else 0.0
                c = sq / (2 * a["scale"] * a["scale"])
                if not zcdp:
                    c = None
            else:
                l1 = V.sum([abs(d) for d in diffs]) if diffs else 0.0
                eps = l1 / a["scale"]
                c = eps * eps / 2 if zcdp else eps      # eps-DP implies eps^2/2-zCDP
            out.append(("event %d (%s)" % (k, a["kind"]), c))
        elif a["kind"] == "select":
            T.append(("event %d: same number of candidates" % k, a["n"], b["n"]))
            if a["n"] != b["n"]:
                continue
            if V.symbolic and "scores" in a and "scores" in b and all(isinstance(x, (SR, int, float)) for x in a["scores"] + b["scores"]):
                # the range of d is invariant under a per-run shift of all scores: subtract candidate 0's score in each run first
                # (cancels the data-dependent `- qualities.max()` term syntactically)
                xs = [x if isinstance(x, SR) else SR.lift(x) for x in a["scores"]]
                ys = [y if isinstance(y, SR) else SR.lift(y) for y in b["scores"]]
                d = [SR(core.R(0))] + [(xs[j] - xs[0]) - (ys[j] - ys[0]) for j in range(1, len(xs))]
                d = [SR(z3.simplify(t.n), t.f, t.sg) for t in d]
                eps = range_bound(V, d)
                if eps is None:
                    eps = sym_max(V, d) + sym_max(V, [-x for x in d])
            elif V.symbolic:
                da = [exponent_of(p) for p in a["p"]]
                db = [exponent_of(p) for p in b["p"]]
                for i in range(1, a["n"]):
                    T.append(("event %d: base measure does not depend on the data [%d]" % (k, i), da[i][0] * db[0][0], da[0][0] * db[i][0]))
                # with d_j = X_j(D) - X_j(D'):  log p_i - log p'_i = d_i - (LSE(X) - LSE(X'))  and  LSE(X) - LSE(X') lies in [min d, max d],
                # so |log p_i - log p'_i| <= max_j d_j - min_j d_j   (invariant under data-dependent shifts of all scores)
                d = [x[1] - y[1] for x, y in zip(da, db)]
                eps = range_bound(V, d)
                if eps is None:
                    eps = sym_max(V, d) + sym_max(V, [-x for x in d])
            else:
                eps = max(abs(math.log(x) - math.log(y)) for x, y in zip(a["p"], b["p"]))
            out.append(("event %d (select)" % k, eps * eps / 8 if zcdp else eps))
    return out, T


def _vars_of(t, acc=None):
    import re
    return set(re.findall(r"[A-Za-z_][A-Za-z_0-9!]*![0-9A-Za-z_!]*|\b[A-Za-z_][A-Za-z_0-9]*\b", t.sexpr()))


def range_bound(V, d):
    """max_j d_j - min_j d_j  <=  R * (common positive factor), with R the exact optimum of the piecewise-linear part, found by z3's
    optimiser (nu-Z) under the linear assumptions on the variables involved (estimator answers >= 0)."""
    d = [x if isinstance(x, SR) else SR.lift(x) for x in d]
    live = [x for x in d if x.sg != "z"]
    if not live:
        return SR(core.R(0))
    com = live[0].f
    for x in live[1:]:
        com = core._common(com, x.f)
    ns = []
    for x in d:
        ns.append(core.R(0) if x.sg == "z" else core._poly(x.n, core._fmul(x.f, com, -1)))

    # a denominator atom of the common monomial may still sit as an explicit factor in every summand of every numerator
    # (x*r - k)/r - (x'*r - k)/r = r*(x - x')/r): cancel it, so that the part handed to the optimiser is piecewise linear
    changed = True
    while changed:
        changed = False
        for key, (atom, pw) in list(com.items()):
            if pw >= 0:
                continue
            stripped = [strip_factor(t, atom) if not core.is_num(t) or core.numval(t) != 0 else t for t in ns]
            if all(t is not None for t in stripped):
                ns = stripped
                com = core._fmul(com, {key: (atom, 1)})
                changed = True
                break

    # likewise any positive parameter atom (root!/sqrt! variable) that multiplies every summand of every numerator
    import re
    cands = set()
    for t in ns:
        cands.update(re.findall(r"(?:root|sqrt)![0-9]+", t.sexpr()))
    for nm in sorted(cands):
        atom = z3.Real(nm)
        stripped = [strip_factor(t, atom) if not (core.is_num(t) and core.numval(t) == 0) else t for t in ns]
        if all(t is not None for t in stripped):
            ns = stripped
            com = core._fmul(com, {atom.get_id(): (atom, 1)})

    def zmax(ts):
        out = ts[0]
        for t in ts[1:]:
            out = z3.If(out >= t, out, t)
        return out
    r = z3.simplify(zmax(ns) + zmax([-t for t in ns]))
    if core.is_num(r):
        return SR(r, com)
    names = _vars_of(r)
    opt = z3.Optimize()
    opt.set("timeout", 20000)
    for a in ST.assumptions:
        an = _vars_of(a)
        if an and an <= names:
            opt.add(a)
    for c in ST.pathcond:
        cn = _vars_of(c)
        if cn and cn <= names:
            opt.add(c)
    import time
    t0 = time.time()
    h = opt.maximize(r)
    res = opt.check()
    solve.STATS.solver_s += time.time() - t0
    if str(res) != "sat":
        solve.STATS.queries["unknown"] += 1
        return None
    up = opt.upper(h)
    solve.STATS.queries["unsat"] += 1          # an optimality certificate: r > up is infeasible
    if not core.is_num(up):
        return None                             # unbounded
    return SR(up, com)


def strip_factor(t, a):
    """t / a if `a` is a syntactic factor of every summand of t (through sums, If-branches and products), else None"""
    if t.eq(a):
        return core.R(1)
    if core.is_num(t):
        return t if core.numval(t) == 0 else None
    if z3.is_app_of(t, z3.Z3_OP_ADD):
        parts = [strip_factor(c, a) for c in t.children()]
        if any(p is None for p in parts):
            return None
        out = parts[0]
        for p_ in parts[1:]:
            out = core.t_add(out, p_)
        return out
    if z3.is_app_of(t, z3.Z3_OP_ITE):
        c, x, y = t.children()
        sx, sy = strip_factor(x, a), strip_factor(y, a)
        if sx is None or sy is None:
            return None
        return z3.If(c, sx, sy)
    if z3.is_app_of(t, z3.Z3_OP_UMINUS):
        r = strip_factor(t.children()[0], a)
        return None if r is None else -r
    if z3.is_app_of(t, z3.Z3_OP_MUL):
        ch = t.children()
        for i, c in enumerate(ch):
            if c.eq(a):
                rest = ch[:i] + ch[i + 1:]
                out = rest[0] if rest else core.R(1)
                for r in rest[1:]:
                    out = out * r
                return out
        for i, c in enumerate(ch):
            r = strip_factor(c, a)
            if r is not None and not core.is_num(c):
                rest = ch[:i] + [r] + ch[i + 1:]
                out = rest[0]
                for q in rest[1:]:
                    out = out * q
                return out
        return None
    return None

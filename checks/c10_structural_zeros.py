"""C10 -- structural zeros carry no mass in any answer.

The real FactoredInference (constructor with structural_zeros, estimate with every solver, cold and warm start) runs with
y, sigma, total and step size symbolic.  Every declared cell must be exactly 0 in the stored marginals, in every project()
answer that contains the declaring attributes (any order), and in datavector(); the remaining mass sums to the total and
no partial primitive (0/0, -inf - -inf, ...) is hit.
"""
import itertools
import sys

import numpy as np

from symx import core, harness, shims, solve, values
from symx.harness import Result
from . import common, estim

PROPERTY = "C10"
LEVEL = "model_checking"
TECHNIQUE = ("bounded symbolic execution of the real estimate() with structural zeros as literal -inf log-potentials; obligations: declared cells == 0 "
             "in marginals / project / datavector, total mass == total, no failed side obligation; z3 decides (a non-zero exp-term at a declared "
             "cell is a satisfiable violation, replayed on the real code)")
BOUNDS = {
    "quick": "domain a,b,c sizes (2,2,2); 6 zero specifications (measured clique, sub-clique removing a whole separator value, unmeasured attribute pair, "
             "permuted key, full row, two keys) x 3 measurement families x solvers MD(step), MD(line search cut 2), RDA, IG x iters 1-2; warm-start "
             "histories of 2-3 calls (shrinking / changing clique sets)",
    "thorough": "quick + sizes (2,3,2), iters 3, MD line search cut 4, all 7 measurement families",
}
OUTSIDE = ("synthetic records (pandas pipeline, see C11); float rounding; the 1e-100 regulariser of Factor.log (taken as 0: interior gradient / dual "
           "averaging refit gives ~1e-100 instead of 0 on out-of-clique answers in floats)")
ASSUMPTIONS = ["real-number semantics; exp abstracted as a positive function", "noise scales, total, step size > 0",
               "zero specifications, measurement families, call histories are enumerated; y, sigma, total, step size symbolic"]
SHIMS_USED = ["np.zeros/np.ones", "logsumexp", "exp", "float", "sparse @ object-array", "1e-100 / nextafter(0,1) regularisers"]

ZEROS = {
    "on_measured": {("a", "b"): [(0, 1)]},
    "separator_value": {("b",): [(1,)]},
    "unmeasured_pair": {("a", "c"): [(1, 0)]},
    "permuted_key": {("b", "a"): [(1, 0)]},
    "full_row": {("a", "b"): [(0, 1), (1, 1)]},
    "two_keys": {("c",): [(0,)], ("a", "b"): [(1, 1)]},
}
HISTORIES = {
    "shrink": ["triangle", "two_overlap"],
    "change": ["disconnected", "nested_perm"],
    "grow_shrink_grow": ["oneway", "two_overlap", "single"],
    "same_twice": ["two_overlap", "two_overlap"],
}


def configs(tier, seed):
    cfgs = []
    sizes_list = [(2, 2, 2)] + ([(2, 3, 2)] if tier == "thorough" else [])
    fams = ["two_overlap", "oneway", "nested_perm"] if tier == "quick" else list(estim.FAMS)
    plan = [("MD_step", 1, None), ("MD_step", 2, None), ("MD_ls", 1, 2), ("RDA", 1, None), ("RDA", 2, None), ("IG", 1, None), ("IG", 2, None)]
    if tier == "thorough":
        plan += [("MD_ls", 1, 4), ("RDA", 3, None), ("IG", 3, None), ("MD_step", 3, None)]
    for sizes in sizes_list:
        for zname in ZEROS:
            for fam in fams:
                for solver, iters, cut in plan:
                    heavy = iters >= 3 or sizes != (2, 2, 2)
                    cfgs.append(dict(name="cold:%s:%s:%s:%s:i%d:c%s" % (zname, fam, sizes, solver, iters, cut), kind="cold", zeros=zname, fam=fam,
                                     sizes=sizes, solver=solver, iters=iters, cut=cut, core=not heavy, cost=20 if heavy else 4, timeout=900 if tier == "thorough" else 200))
            for hname in HISTORIES:
                for solver in ("MD_step", "IG", "RDA"):
                    cfgs.append(dict(name="warm:%s:%s:%s:%s" % (zname, hname, sizes, solver), kind="warm", zeros=zname, hist=hname, sizes=sizes,
                                     solver=solver, iters=1, cut=None, cost=8, timeout=900 if tier == "thorough" else 300))
    return cfgs


def zero_obligations(V, T, model, dom, attrs, N, zspec, tag, bulk=False):
    declared = []
    for key, cells in zspec.items():
        for cell in cells:
            declared.append((tuple(key), tuple(cell)))
    # stored marginals
    if hasattr(model, "marginals"):
        for cl, F in model.marginals.items():
            for key, cell in declared:
                if set(key) <= set(cl):
                    for idx, g in common.factor_cells(F):
                        a = dict(zip(F.domain.attrs, idx))
                        if all(a[k] == c for k, c in zip(key, cell)):
                            T.append(("%smarginals[%s]%s is 0 (declared %s=%s)" % (tag, "".join(cl), "".join(map(str, idx)), "".join(key), cell), g, 0.0))
    # project answers on every ordered tuple that contains a declaring key
    seen = set()
    for key, cell in declared:
        for S in common.all_ordered_subsets(attrs, minlen=len(key)):
            if not set(key) <= set(S) or (S, key, cell) in seen:
                continue
            seen.add((S, key, cell))
            F = model.project(S)
            if tuple(sorted(S)) == tuple(S):
                T.append(("%sproject(%s) sums to total" % (tag, ",".join(S)), F.sum(), N))
            for idx, g in common.factor_cells(F):
                a = dict(zip(F.domain.attrs, idx))
                if all(a[k] == c for k, c in zip(key, cell)):
                    T.append(("%sproject(%s)%s is 0 (declared %s=%s)" % (tag, ",".join(S), "".join(map(str, idx)), "".join(key), cell), g, 0.0))
    # the bulk query path
    if bulk:
        want = [S for S in common.all_ordered_subsets(attrs, minlen=1, maxlen=2)]
        ans = model.calculate_many_marginals(want)
        for S in want:
            F = ans[S]
            if tuple(sorted(S)) == tuple(S):
                T.append(("%sbulk(%s) sums to total" % (tag, ",".join(S)), F.sum(), N))
            for key, cell in declared:
                if set(key) <= set(S):
                    for idx, g in common.factor_cells(F):
                        a = dict(zip(F.domain.attrs, idx))
                        if all(a[k] == c for k, c in zip(key, cell)):
                            T.append(("%sbulk(%s)%s is 0 (declared %s=%s)" % (tag, ",".join(S), "".join(map(str, idx)), "".join(key), cell), g, 0.0))
    dv = model.datavector()
    T.append((tag + "datavector sums to total", V.sum(list(dv)), N))
    for i, x in enumerate(itertools.product(*[range(n) for n in dom.shape])):
        a = dict(zip(attrs, x))
        for key, cell in declared:
            if all(a[k] == c for k, c in zip(key, cell)):
                T.append(("%sdatavector%s is 0 (declared %s=%s)" % (tag, x, "".join(key), cell), dv[i], 0.0))


def scenario_for(cfg):
    attrs, sizes = ["a", "b", "c"], tuple(cfg["sizes"])
    zspec = ZEROS[cfg["zeros"]]

    def scenario(V):
        mbi = estim.prepare_inference(V, cfg["cut"])
        dom = mbi.Domain(attrs, sizes)
        N = V.real("N", "p")
        T = []
        zcopy = {k: list(v) for k, v in zspec.items()}
        if cfg["kind"] == "cold":
            eng = mbi.FactoredInference(dom, iters=cfg["iters"], structural_zeros=zcopy)
            ms = estim.measurements(V, dom, estim.FAMS[cfg["fam"]])
            name, opts = estim.solver_options(V, cfg["solver"])
            model = eng.estimate(ms, total=N, engine=name, options=opts)
            zero_obligations(V, T, model, dom, attrs, N, zspec, "", bulk=(cfg["iters"] == 1))
            if cfg["iters"] == 1 or cfg["solver"].startswith("MD"):
                # coherence of the returned pair is C08's subject; it is repeated here only where it is cheap
                estim.model_answers(V, T, model, dom, attrs, N, "valid:", tuples=[("a",), ("b", "c"), ("a", "c")])
        else:
            eng = mbi.FactoredInference(dom, iters=cfg["iters"], structural_zeros=zcopy, warm_start=True)
            for k, fam in enumerate(HISTORIES[cfg["hist"]]):
                ms = estim.measurements(V, dom, estim.FAMS[fam], tag="c%d_" % k)
                name, opts = estim.solver_options(V, cfg["solver"])
                model = eng.estimate(ms, total=N, engine=name, options=opts)
                zero_obligations(V, T, model, dom, attrs, N, zspec, "call%d:" % k)
        T.append(("zero specification left unmodified", str(zcopy), str({k: list(v) for k, v in zspec.items()})))
        return T
    return scenario


def run_config(cfg):
    res = Result(cfg)
    mbi = common.mbi_for(True)
    FI, G, F = mbi.FactoredInference, mbi.GraphicalModel, mbi.Factor
    res.functions = shims.fn_fingerprint(FI.__init__, FI.estimate, FI.mirror_descent, FI.dual_averaging, FI.interior_gradient, FI._setup,
                                         F.active, F.__sub__, mbi.CliqueVector.combine, G.belief_propagation, G.project, G.datavector, G.mle)
    values.run_scenario(res, scenario_for(cfg), rng=harness.rng_for(cfg), timeout_ms=60000, max_paths=40, max_decisions=100)
    return res


def finding_key(c):
    cfg = c["config"]
    what = c.get("what", "")
    kind = "zero_cell_has_mass" if " is 0 " in what else ("mass" if "sums to total" in what else what.split("[")[0][:40])
    if c.get("kind") in ("exception", "poison"):
        kind = c.get("kind") + ":" + str(c.get("where", c.get("why", "")))[:70]
    return "%s:%s:%s" % (cfg["kind"], cfg["solver"].split("_")[0], kind)


def replay(c):
    return values.replay_scenario(scenario_for(c["config"]), c, tol=1e-7)


if __name__ == "__main__":
    harness.main(sys.modules[__name__])

"""symx.solve -- discharging obligations with z3, path exploration by re-execution, numeric evaluation."""
import math
import time
from fractions import Fraction

import z3

from . import core
from .core import ST, R, is_num, numval


class Stats:
    def __init__(self):
        self.queries = {"unsat": 0, "sat": 0, "unknown": 0}
        self.solver_s = 0.0
        self.trivial = 0       # obligations whose residue the rewriter normalised to 0 before the solver ran
        self.paths = 0
        self.bound_hits = 0
        self.decisions = 0
        self.branch_queries = 0

    def merge(self, o):
        for k in self.queries:
            self.queries[k] += o.queries[k]
        self.solver_s += o.solver_s
        self.trivial += o.trivial
        self.paths += o.paths
        self.bound_hits += o.bound_hits
        self.decisions += o.decisions
        self.branch_queries += o.branch_queries

    def as_dict(self):
        return dict(queries=dict(self.queries), solver_s=round(self.solver_s, 3), rewriter_normalised=self.trivial,
                    paths=self.paths, bound_hits=self.bound_hits, decisions=self.decisions,
                    branch_queries=self.branch_queries)


STATS = Stats()


def _mk_solver(timeout_ms, logic=None):
    s = z3.Solver() if logic is None else z3.SolverFor(logic)
    s.set("timeout", int(timeout_ms))
    return s


def e_axioms(terms, mono=True, max_pairs=400):
    """Sound instances of facts about exp for the E-atoms occurring in `terms`.
    positivity is already an assumption; here: congruence + strict monotonicity for pairs."""
    if not ST.eatoms:
        return []
    want = set()
    seen = set()

    def walk(t):
        if t.get_id() in seen:
            return
        seen.add(t.get_id())
        if z3.is_const(t) and t.decl().kind() == z3.Z3_OP_UNINTERPRETED:
            nm = str(t)
            if nm in ST.evar_of:
                want.add(nm)
                walk(ST.evar_of[nm])     # nested exp arguments
            return
        for c in t.children():
            walk(c)

    for t in terms:
        walk(t)
    atoms = [(ST.evar_of[nm], z3.Real(nm)) for nm in sorted(want, key=lambda s: int(s.split("!")[1]))]
    out = []
    if mono:
        pairs = 0
        for i in range(len(atoms)):
            for j in range(i + 1, len(atoms)):
                (a1, e1), (a2, e2) = atoms[i], atoms[j]
                out.append(z3.Implies(a1 < a2, e1 < e2))
                out.append(z3.Implies(a1 > a2, e1 > e2))
                out.append(z3.Implies(a1 == a2, e1 == e2))
                pairs += 1
                if pairs >= max_pairs:
                    return out
        for a, e in atoms:
            out.append(z3.Implies(a > 0, e > 1))
            out.append(z3.Implies(a < 0, e < 1))
            out.append(z3.Implies(a == 0, e == 1))
            out.append(e >= 1 + a)         # exp(x) >= 1 + x
    return out


def check_sat(constraints, timeout_ms=10000):
    """raw satisfiability; returns (verdict str, model or None, seconds)"""
    s = _mk_solver(timeout_ms)
    for c in constraints:
        s.add(c)
    t0 = time.time()
    r = s.check()
    dt = time.time() - t0
    STATS.solver_s += dt
    v = str(r)
    STATS.queries[v] = STATS.queries.get(v, 0) + 1
    return v, (s.model() if v == "sat" else None), dt


def prove(goal, extra=(), timeout_ms=20000, with_path=True, mono=False):
    """Is `goal` implied by assumptions (+ path condition)?  -> ('unsat' = proved | 'sat' | 'unknown', model, s)"""
    goal = z3.simplify(goal) if not isinstance(goal, bool) else z3.BoolVal(goal)
    if z3.is_true(goal):
        STATS.trivial += 1
        STATS.queries["unsat"] += 1
        return "unsat", None, 0.0
    cons = expanded_assumptions() + [core.expand_defs(c) for c in ((list(ST.pathcond) if with_path else []) + list(extra))]
    neg = core.expand_defs(z3.Not(goal))
    if mono:
        cons += e_axioms(cons + [neg], mono=True)
    return check_sat(cons + [neg], timeout_ms)


def expanded_assumptions():
    """assumptions with the purified atoms unfolded (cached: definitions never change once made).  Assumptions that only say
    `S!k > 0` are dropped: after unfolding nothing refers to S!k any more."""
    cache = ST.__dict__.setdefault("_exp_cache", [])
    A = ST.assumptions
    if len(cache) > len(A):
        del cache[:]
    while len(cache) < len(A):
        a = A[len(cache)]
        names = core._defs_in(a) if ST.defs else []
        if not names:
            cache.append(a)
        else:
            cache.append(core.expand_defs(a))
    return list(cache)


def residue_zero(an, ad, bn, bd):
    """polynomial residue an*bd - bn*ad, normalised by z3's rewriter in stages:
       (1) purified atoms opaque, AC-flattening only; (2) opaque, sum-of-monomials; (3) definitions expanded, sum-of-monomials."""
    t0 = time.time()
    res = core.t_sub(core.t_mul(an, bd), core.t_mul(bn, ad))
    out = z3.simplify(res)
    if not (is_num(out) and numval(out) == 0):
        out = z3.simplify(res, som=True, som_blowup=SOM_BLOWUP)
    if not (is_num(out) and numval(out) == 0) and ST.defs:
        # (3) all definitions unfolded at once (what identities between two independently built sums need)
        full = z3.simplify(core.expand_defs(res), som=True, som_blowup=SOM_BLOWUP)
        if is_num(full) and numval(full) == 0:
            out = full
        else:
            # (4) level by level, outermost first, within a small time budget (helps when only the outer normalisers differ)
            cur, t1 = out, time.time()
            for _ in range(8):
                names = core._defs_in(cur)
                if not names or time.time() - t1 > 2.0:
                    break
                names.sort(key=lambda nm: -int(nm.split("!")[1]))
                top = names[:max(1, len(names) // 3)]
                cur = z3.substitute(cur, *[(z3.Real(nm), ST.defs[nm]) for nm in top])
                cur = z3.simplify(cur, som=True, som_blowup=SOM_BLOWUP)
                if is_num(cur):
                    break
            out = cur if (is_num(cur) and numval(cur) == 0) else full
    STATS.solver_s += time.time() - t0
    return out


SOM_BLOWUP = 10


def prove_eq(a, b, extra=(), timeout_ms=20000, tol=None):
    """a == b for SR / SL / python numbers (SL compared on V).  strategy: rewriter-first, then solver."""
    an, ad = _frac(a)
    bn, bd = _frac(b)
    if an is None or bn is None:   # -inf / literal zero in log-space
        za, zb = an is None, bn is None
        if za and zb:
            STATS.trivial += 1
            STATS.queries["unsat"] += 1
            return "unsat", None, 0.0
        x = (bn, bd) if za else (an, ad)
        return prove(x[0] == 0, extra, timeout_ms)
    t0 = time.time()
    res = residue_zero(an, ad, bn, bd)
    if is_num(res) and numval(res) == 0:
        STATS.trivial += 1
        STATS.queries["unsat"] += 1
        return "unsat", None, time.time() - t0
    if tol is not None:
        # |a-b| <= tol*(|a|+|b|+1)  on cross-multiplied form (denominators positive)
        den = core.t_mul(ad, bd)
        scale = core.t_add(core.t_add(_abs(core.t_mul(an, bd)), _abs(core.t_mul(bn, ad))), den)
        goal = z3.And(res <= R(tol) * scale, -res <= R(tol) * scale)
        return prove(goal, extra, timeout_ms)
    return prove(res == 0, extra, timeout_ms)


def _abs(t):
    return z3.If(t >= 0, t, -t)


def _frac(x):
    if isinstance(x, core.SL):
        if x.st == "z":
            return None, None
        return x.vfrac()
    if isinstance(x, core.SR):
        return x.frac()
    x = core.SR.lift(x)
    return x.frac()


# ----------------------------------------------------------------------------------------
# path exploration by deterministic re-execution
# ----------------------------------------------------------------------------------------
class PathAbort(BaseException):
    pass


class BoundHit(PathAbort):
    pass


class Infeasible(PathAbort):
    pass


class Pruned(PathAbort):
    """the harness's environment model rules this path out (e.g. a sampler cannot return an index of probability 0)"""


class Explorer:
    """DFS over the outcomes of every symbolic bool that Python/numpy forces to a concrete bool."""

    def __init__(self, max_paths=200, max_decisions=60, branch_timeout_ms=1500, mono=False):
        self.max_paths = max_paths
        self.max_decisions = max_decisions
        self.branch_timeout_ms = branch_timeout_ms
        self.mono = mono
        self.worklist = []
        self.prefix = []
        self.taken = []
        self.known = {}
        self.solver = None
        self.n_assumed = 0

    def _sync_solver(self):
        # assumptions may grow during the run (fresh variables): feed the new ones
        exp = expanded_assumptions()
        while self.n_assumed < len(exp):
            self.solver.add(exp[self.n_assumed])
            self.n_assumed += 1

    def _feasible(self, cond):
        self._sync_solver()
        self.solver.push()
        self.solver.add(core.expand_defs(cond))
        if self.mono:
            for ax in e_axioms([cond] + ST.pathcond, mono=True, max_pairs=60):
                self.solver.add(ax)
        t0 = time.time()
        r = self.solver.check()
        STATS.solver_s += time.time() - t0
        STATS.branch_queries += 1
        self.solver.pop()
        return str(r) != "unsat"     # unknown => explore (sound for 'holds' verdicts)

    def decide(self, cond):
        # the same condition decided earlier on this path (e.g. the fresh-estimator twin of a history run): same outcome
        key = cond.get_id()
        if key in self.known:
            return self.known[key][1]
        out = self._decide(cond)
        self.known[key] = (cond, out)      # the term is kept alive: z3 ids are only unique among live terms
        return out

    def _decide(self, cond):
        idx = len(self.taken)
        if idx >= self.max_decisions:
            raise BoundHit("decision depth %d" % idx)
        if idx < len(self.prefix):
            choice = self.prefix[idx]
        else:
            ft = self._feasible(cond)
            ff = self._feasible(z3.Not(cond))
            if ft and ff:
                choice = True
                self.worklist.append(self.taken + [False])
            elif ft:
                choice = True
            elif ff:
                choice = False
            else:
                raise Infeasible("path condition became infeasible")
        STATS.decisions += 1
        self.taken.append(choice)
        c = cond if choice else z3.Not(cond)
        ST.pathcond.append(c)
        self._sync_solver()
        self.solver.add(core.expand_defs(c))
        return choice

    def run(self, fn):
        """fn() is executed once per path with a fresh ST; yields (taken decisions, result | exception)"""
        self.worklist = [[]]
        results = []
        npaths = 0
        while self.worklist:
            if npaths >= self.max_paths:
                STATS.bound_hits += len(self.worklist)
                results.append(("bound", None, "max_paths reached with %d prefixes pending" % len(self.worklist)))
                break
            self.prefix = self.worklist.pop()
            self.taken = []
            self.known = {}
            ST.reset()
            ST.explorer = self
            self.solver = z3.Solver()
            self.solver.set("timeout", self.branch_timeout_ms)
            self.n_assumed = 0
            npaths += 1
            STATS.paths += 1
            try:
                out = fn()
                results.append(("ok", list(self.taken), out))
            except BoundHit as e:
                STATS.bound_hits += 1
                results.append(("bound", list(self.taken), str(e)))
            except Pruned as e:
                results.append(("pruned", list(self.taken), str(e)))
            except Infeasible as e:
                results.append(("infeasible", list(self.taken), str(e)))
            finally:
                ST.explorer = None
        return results


# ----------------------------------------------------------------------------------------
# numeric evaluation of terms (fidelity tests, replay)
# ----------------------------------------------------------------------------------------
def evalf(t, env, _cache=None):
    """evaluate a z3 term in floats; env: var name -> float.  E-atoms and root variables are *defined* values."""
    if _cache is None:
        _cache = {}
    key = t.get_id()
    if key in _cache:
        return _cache[key]
    k = t.decl().kind()
    if is_num(t):
        v = float(numval(t))
    elif z3.is_const(t) and k == z3.Z3_OP_UNINTERPRETED:
        nm = str(t)
        if nm in env:
            v = env[nm]
        elif nm in ST.evar_of:
            v = math.exp(evalf(ST.evar_of[nm], env, _cache))
        elif nm in ST.defs:
            v = evalf(ST.defs[nm], env, _cache)
        elif nm in ST.roots:
            p, q, base = ST.roots[nm]
            if p == "fn":
                arg = evalf(base, env, _cache)
                v = {"LOG1P": math.log1p, "LOG": math.log}[q](arg)
            else:
                b = evalf(base, env, _cache)
                v = b ** (p / q) if b >= 0 else float("nan")
        else:
            raise KeyError("no value for %s" % nm)
    elif z3.is_true(t):
        v = True
    elif z3.is_false(t):
        v = False
    else:
        ch = [evalf(c, env, _cache) for c in t.children()]
        if k == z3.Z3_OP_ADD:
            v = sum(ch)
        elif k == z3.Z3_OP_MUL:
            v = 1.0
            for c in ch:
                v *= c
        elif k == z3.Z3_OP_SUB:
            v = ch[0] - sum(ch[1:])
        elif k == z3.Z3_OP_UMINUS:
            v = -ch[0]
        elif k == z3.Z3_OP_DIV:
            v = ch[0] / ch[1]
        elif k == z3.Z3_OP_POWER:
            v = ch[0] ** ch[1]
        elif k == z3.Z3_OP_ITE:
            v = ch[1] if ch[0] else ch[2]
        elif k == z3.Z3_OP_LE:
            v = ch[0] <= ch[1]
        elif k == z3.Z3_OP_LT:
            v = ch[0] < ch[1]
        elif k == z3.Z3_OP_GE:
            v = ch[0] >= ch[1]
        elif k == z3.Z3_OP_GT:
            v = ch[0] > ch[1]
        elif k == z3.Z3_OP_EQ:
            v = ch[0] == ch[1]
        elif k == z3.Z3_OP_DISTINCT:
            v = len(set(ch)) == len(ch)
        elif k == z3.Z3_OP_NOT:
            v = not ch[0]
        elif k == z3.Z3_OP_AND:
            v = all(ch)
        elif k == z3.Z3_OP_OR:
            v = any(ch)
        elif k == z3.Z3_OP_IMPLIES:
            v = (not ch[0]) or ch[1]
        elif k == z3.Z3_OP_TO_REAL:
            v = float(ch[0])
        else:
            raise core.SymError("evalf: unsupported operator %s" % t.decl())
    _cache[key] = v
    return v


def eval_sym(x, env):
    """float value of SR / exp-value of SL / python number under env"""
    cache = {}
    if isinstance(x, core.SR):
        n, d = x.frac()
        return evalf(n, env, cache) / evalf(d, env, cache)
    if isinstance(x, core.SL):
        if x.st == "z":
            return -math.inf
        n, d = x.vfrac()
        v = evalf(n, env, cache) / evalf(d, env, cache)
        return math.log(v) if v > 0 else -math.inf
    return float(x)


def model_env(model, names=None):
    """z3 model -> {var name: float} for user variables (E!/sqrt!/root! are recomputed by evalf)"""
    env = {}
    for d in model.decls():
        nm = d.name()
        if nm.startswith("E!") or nm.startswith("sqrt!") or nm.startswith("root!") or nm.startswith("S!"):
            continue
        v = model[d]
        if is_num(v):
            env[nm] = float(numval(v))
        elif z3.is_algebraic_value(v):
            env[nm] = float(numval(v.approx(20)))
    return env

"""symx.core -- symbolic scalars over z3 terms that ride inside numpy object arrays.

SR  : a real number, kept as an explicit fraction n/d of z3 Real terms with d > 0.
SL  : an *extended* real  log(V),  V = (cn/cd) * E(a)  with V >= 0;  V == 0 denotes -inf.
      (log,+,logsumexp) is mapped to (R>=0,*,+): log-space code becomes rational functions.
SB  : a symbolic bool; bool(SB) forks the current path (see symx.explore).

Nothing in here knows about private-pgm; the real repo code manipulates these objects
through numpy object arrays and ordinary Python operators.
"""
import math
import numbers
from fractions import Fraction

import numpy as np
import z3

# ----------------------------------------------------------------------------------------
# z3 term helpers with constant folding (keeps terms small, keeps identical things identical)
# ----------------------------------------------------------------------------------------
_ZERO = z3.RealVal(0)
_ONE = z3.RealVal(1)


def R(x):
    """python number -> z3 Real numeral (exact)."""
    if isinstance(x, z3.ExprRef):
        return x
    if isinstance(x, bool):
        x = int(x)
    if isinstance(x, (int, np.integer)):
        return z3.RealVal(int(x))
    if isinstance(x, Fraction):
        return z3.RealVal(str(x))
    if isinstance(x, (float, np.floating)):
        x = float(x)
        if math.isinf(x) or math.isnan(x):
            raise SymError("non-finite constant %r cannot become a real term" % x)
        return z3.RealVal(str(Fraction(x)))
    raise SymError("cannot convert %r to a real term" % (x,))


def is_num(t):
    return z3.is_rational_value(t) or z3.is_int_value(t)


def numval(t):
    if z3.is_int_value(t):
        return Fraction(t.as_long())
    return Fraction(t.numerator_as_long(), t.denominator_as_long())


def t_add(a, b):
    an, bn = is_num(a), is_num(b)
    if an and bn:
        return R(numval(a) + numval(b))
    if an and numval(a) == 0:
        return b
    if bn and numval(b) == 0:
        return a
    return a + b


def t_sub(a, b):
    an, bn = is_num(a), is_num(b)
    if an and bn:
        return R(numval(a) - numval(b))
    if bn and numval(b) == 0:
        return a
    if an and numval(a) == 0:
        return t_neg(b)
    if a.eq(b):
        return _ZERO
    return a - b


def t_neg(a):
    if is_num(a):
        return R(-numval(a))
    return -a


def t_mul(a, b):
    an, bn = is_num(a), is_num(b)
    if an and bn:
        return R(numval(a) * numval(b))
    if an:
        v = numval(a)
        if v == 0:
            return _ZERO
        if v == 1:
            return b
    if bn:
        v = numval(b)
        if v == 0:
            return _ZERO
        if v == 1:
            return a
    if not an and not bn and ST.sq_of and a.eq(b):
        sq = ST.sq_of.get(a.get_id())
        if sq is not None:
            return sq                       # sqrt(x) * sqrt(x) is x
    if not an and not bn:
        # keep sign()/abs() terms linear: push a multiplication into If-terms (and through sums that contain them)
        if _has_top_ite(a):
            return _distribute(a, b)
        if _has_top_ite(b):
            return _distribute(b, a)
    return a * b


def _is_ite(t):
    return z3.is_app_of(t, z3.Z3_OP_ITE)


def _has_top_ite(t):
    if _is_ite(t):
        return True
    if z3.is_app_of(t, z3.Z3_OP_ADD):
        return any(_is_ite(c) or (z3.is_app_of(c, z3.Z3_OP_MUL) and any(_is_ite(cc) for cc in c.children())) for c in t.children())
    if z3.is_app_of(t, z3.Z3_OP_MUL) and t.num_args() == 2:
        return any(_is_ite(c) for c in t.children()) and any(is_num(c) for c in t.children())
    return False


def _distribute(a, b):
    """a * b where a is an If-term, a numeral multiple of one, or a sum containing such"""
    if _is_ite(a):
        c, x, y = a.children()
        return z3.If(c, t_mul(x, b), t_mul(y, b))
    if z3.is_app_of(a, z3.Z3_OP_ADD):
        out = None
        for ch in a.children():
            term = t_mul(ch, b)
            out = term if out is None else t_add(out, term)
        return out
    if z3.is_app_of(a, z3.Z3_OP_MUL):
        k = [c for c in a.children() if is_num(c)]
        rest = [c for c in a.children() if not is_num(c)]
        if len(k) == 1 and len(rest) == 1:
            return t_mul(rest[0], t_mul(k[0], b))
    return a * b


def t_isone(a):
    return is_num(a) and numval(a) == 1


def t_iszero(a):
    return is_num(a) and numval(a) == 0


class SymError(Exception):
    """The engine cannot represent what the code asked for (=> harness error, never a verdict)."""


class Poison(SymError):
    """A value such as +inf / nan (in real semantics) was *used*."""


# ----------------------------------------------------------------------------------------
# global state of the current symbolic run
# ----------------------------------------------------------------------------------------
class State:
    def __init__(self):
        self.reset()

    def reset(self):
        self.counter = 0
        self.assumptions = []      # z3 Bool: input constraints + definitions of fresh vars
        self.pathcond = []         # z3 Bool: decisions taken on this path
        self.eatoms = {}           # key(arg) -> (arg term, evar)
        self.evar_of = {}          # evar name -> arg term
        self.roots = {}            # var name -> (p, q, base term): var**q == base**p, var >= 0
        self.obligations = []      # (kind, goal z3 Bool, info) side obligations emitted by partial primitives
        self.events = []           # free-form event log (shims append)
        self.explorer = None       # set by symx.explore
        self.rootcache = {}
        self.defs = {}             # name of a purified atom S!k -> the term it stands for
        self.def_of = {}           # term id -> S!k variable
        self.fullpairs = []        # (S!k, fully unfolded definition)
        self.sq_of = {}            # id of a sqrt variable -> the term it is the square root of
        self._exp_cache = []
        self.kappa_zero = True     # treat 1e-100 / nextafter regularisers as 0

    def fresh(self, prefix):
        self.counter += 1
        return z3.Real("%s!%d" % (prefix, self.counter))

    def assume(self, b):
        self.assumptions.append(b)

    def oblige(self, kind, goal, info=""):
        self.obligations.append((kind, goal, info))


ST = State()


def E_atom(arg):
    """The real number exp(arg), abstracted as a fresh positive constant per distinct argument."""
    arg = z3.simplify(arg)
    if is_num(arg) and numval(arg) == 0:
        return _ONE
    key = arg.get_id()
    hit = ST.eatoms.get(key)
    if hit is not None:
        return hit[1]
    v = z3.Real("E!%d" % (len(ST.eatoms) + 1))
    ST.eatoms[key] = (arg, v)
    ST.evar_of[str(v)] = arg
    ST.assume(v > 0)
    return v


def atomize(t, positive=True):
    """a positive (or non-negative) compound term used as an atom of a monomial is given a name S!k; identities are first tried
    with the names opaque (cheap polynomial normal form), and only then with the definitions expanded"""
    if z3.is_const(t) and t.decl().kind() == z3.Z3_OP_UNINTERPRETED:
        return t
    key = t.get_id()
    hit = ST.def_of.get(key)
    if hit is not None:
        return hit
    v = z3.Real("S!%d" % (len(ST.defs) + 1))
    ST.defs[str(v)] = t
    ST.def_of[key] = v
    # fully unfolded definition, computed once (earlier atoms are already unfolded): one C-level substitution
    ST.fullpairs.append((v, z3.substitute(t, *ST.fullpairs) if ST.fullpairs else t))
    ST.assume(v > 0 if positive else v >= 0)
    return v


def expand_defs(t, limit=200):
    """substitute purified atoms by their (fully unfolded) definitions: a single C-level substitution"""
    if not ST.fullpairs:
        return t
    return z3.substitute(t, *ST.fullpairs)


_SRE = None


def _defs_in(t):
    """names of purified atoms occurring in t (via the C-level printer; let-bound sharing keeps it linear)"""
    global _SRE
    if _SRE is None:
        import re
        _SRE = re.compile(r"S!\d+")
    if not ST.defs:
        return []
    return [nm for nm in set(_SRE.findall(t.sexpr())) if nm in ST.defs]


def def_constraints(terms):
    """defining equalities S!k == term for every purified atom occurring (transitively) in `terms`"""
    out, done, todo = [], set(), list(terms)
    while todo:
        t = todo.pop()
        for nm in _defs_in(t):
            if nm not in done:
                done.add(nm)
                d = ST.defs[nm]
                out.append(z3.Real(nm) == d)
                todo.append(d)
    return out


# ----------------------------------------------------------------------------------------
# symbolic bool
# ----------------------------------------------------------------------------------------
class SB:
    __slots__ = ("t",)

    def __init__(self, t):
        self.t = t

    def __bool__(self):
        if z3.is_true(self.t):
            return True
        if z3.is_false(self.t):
            return False
        ex = ST.explorer
        if ex is None:
            raise SymError("symbolic bool forced with no explorer active: %s" % self.t)
        return ex.decide(self.t)

    def __and__(self, o):
        return SB(z3.And(self.t, _bt(o)))

    __rand__ = __and__

    def __or__(self, o):
        return SB(z3.Or(self.t, _bt(o)))

    __ror__ = __or__

    def __invert__(self):
        return SB(z3.Not(self.t))

    def __repr__(self):
        return "SB(%s)" % self.t


def _bt(o):
    if isinstance(o, SB):
        return o.t
    return z3.BoolVal(bool(o))


def _mk_sb(t):
    t = z3.simplify(t)
    if z3.is_true(t):
        return True
    if z3.is_false(t):
        return False
    return SB(t)


# ----------------------------------------------------------------------------------------
# base class: numpy-scalar protocol so Factor.__init__ etc. accept full reductions
# ----------------------------------------------------------------------------------------
class Sym:
    __slots__ = ()
    size = 1
    ndim = 0
    shape = ()

    def reshape(self, *shape):
        a = np.empty((), dtype=object)
        a[()] = self
        return a.reshape(*shape)

    def flatten(self):
        return self.reshape(1)

    def copy(self):
        return self

    def item(self):
        return self

    def conjugate(self):
        return self

    conj = conjugate

    @property
    def real(self):
        return self

    @property
    def imag(self):
        return 0.0

    def __hash__(self):
        return id(self)

    def __float__(self):
        raise SymError("float() of a symbolic value (missing `float` shim in this module?)")

    def __int__(self):
        raise SymError("int() of a symbolic value")

    def __index__(self):
        raise SymError("symbolic value used as an index")


numbers.Number.register(Sym)

_PYNUM = (int, float, Fraction, np.integer, np.floating, bool, np.bool_)


def _sg_of_const(v):
    if v == 0:
        return "z"
    return "p" if v > 0 else "n"


_ADD = {("z", "z"): "z", ("p", "p"): "p", ("p", "nn"): "p", ("nn", "p"): "p", ("nn", "nn"): "nn",
        ("p", "z"): "p", ("z", "p"): "p", ("nn", "z"): "nn", ("z", "nn"): "nn",
        ("n", "n"): "n", ("n", "z"): "n", ("z", "n"): "n"}
_MUL = {("p", "p"): "p", ("p", "nn"): "nn", ("nn", "p"): "nn", ("nn", "nn"): "nn",
        ("n", "n"): "p", ("n", "p"): "n", ("p", "n"): "n"}


def _sg_add(a, b):
    return _ADD.get((a, b))


def _sg_mul(a, b):
    if a == "z" or b == "z":
        return "z"
    return _MUL.get((a, b))


def _sg_neg(a):
    return {"z": "z", "p": "n", "n": "p"}.get(a)


def _fmul(f, g, sign=1):
    """merge two factor dicts  id -> (term, power)"""
    if not g:
        return f
    out = dict(f)
    for k, (t, p) in g.items():
        if k in out:
            q = out[k][1] + sign * p
            if q == 0:
                del out[k]
            else:
                out[k] = (t, q)
        else:
            out[k] = (t, sign * p)
    return out


def _root_of(atom, q):
    """fresh w >= 0 with w**q == atom (atom >= 0)"""
    key = ("aroot", atom.get_id(), q)
    hit = ST.rootcache.get(key)
    if hit is None:
        w = ST.fresh("root")
        ST.assume(w >= 0)
        lhs = w
        for _ in range(q - 1):
            lhs = t_mul(lhs, w)
        ST.assume(lhs == atom)
        ST.assume(z3.Implies(atom > 0, w > 0))
        ST.roots[str(w)] = (1, q, atom)
        ST.rootcache[key] = (w,)
        hit = ST.rootcache[key]
    return hit[0]


def _tpow(t, n):
    out = t
    for _ in range(n - 1):
        out = t_mul(out, t)
    return out


def _materialise(c, f):
    """(num term, den term) of  c * prod atom**pow ; fractional powers go through root variables"""
    num, den = R(c.numerator), R(c.denominator)
    for _, (t, p) in sorted(f.items()):
        p = Fraction(p)
        if p.denominator != 1:
            t = _root_of(t, p.denominator)
        n = abs(p.numerator)
        if p > 0:
            num = t_mul(num, _tpow(t, n))
        else:
            den = t_mul(den, _tpow(t, n))
    return num, den



def _feq(f, g):
    if f is g:
        return True
    if len(f) != len(g):
        return False
    for k, (_, p) in f.items():
        h = g.get(k)
        if h is None or h[1] != p:
            return False
    return True


def _common(f, g):
    """per-atom minimum power of two factor dicts (absent = 0)"""
    if _feq(f, g):
        return f
    out = {}
    for k in set(f) | set(g):
        pf = f[k][1] if k in f else 0
        pg = g[k][1] if k in g else 0
        m = min(pf, pg)
        if m != 0:
            out[k] = ((f.get(k) or g.get(k))[0], m)
    return out


def _poly(n, f):
    """n * prod atom**p for a factor dict with non-negative powers (what is left after taking the common part out)"""
    if not f:
        return n
    num, den = _materialise(Fraction(1), f)
    out = t_mul(n, num)
    if not t_isone(den):
        out = out / den
    return out


class SR(Sym):
    """real number  n * prod_i atom_i**p_i  with atoms strictly positive z3 terms (p_i < 0 = denominator) and n an arbitrary
    z3 Real term.  sg in {'z','p','nn','n',None}: syntactically known sign."""
    __slots__ = ("n", "f", "sg", "src")

    def __init__(self, n, f=None, sg=None, src=None):
        self.n = n
        self.f = f or {}
        self.src = src        # additive provenance ('add', x, y) | ('scale', x, k): lets exp(x+y) be lifted as exp(x)exp(y)
        if sg is None and is_num(n):
            sg = _sg_of_const(numval(n))
        if sg == "z":
            self.n, self.f = _ZERO, {}
        self.sg = sg

    # -- construction ------------------------------------------------------------------
    @staticmethod
    def const(x):
        return SR(R(x))

    @staticmethod
    def var(name, sg=None):
        v = z3.Real(name)
        if sg == "p":
            ST.assume(v > 0)
            return SR(_ONE, {v.get_id(): (v, 1)}, "p")       # a positive variable is an atom of the monomial part
        elif sg == "nn":
            ST.assume(v >= 0)
        elif sg == "n":
            ST.assume(v < 0)
        return SR(v, None, sg)

    @staticmethod
    def lift(x):
        if isinstance(x, SR):
            return x
        if isinstance(x, _PYNUM):
            xf = float(x) if not isinstance(x, Fraction) else x
            if isinstance(xf, float) and (math.isinf(xf) or math.isnan(xf)):
                raise Poison("non-finite float %r in real arithmetic" % xf)
            return SR(R(x if isinstance(x, (int, Fraction)) else xf))
        raise SymError("cannot lift %r to SR" % (x,))

    def is_const(self):
        return is_num(self.n) and not self.f

    def constval(self):
        return numval(self.n)

    def frac(self):
        """(numerator term, positive denominator term)"""
        num, den = _materialise(Fraction(1), self.f)
        return t_mul(self.n, num), den

    @property
    def d(self):
        return self.frac()[1]

    def term(self):
        n, d = self.frac()
        if t_isone(d):
            return n
        return n / d

    # -- arithmetic --------------------------------------------------------------------
    def _coerce(self, o):
        if isinstance(o, SR):
            return o
        if isinstance(o, _PYNUM):
            return o
        return None

    def __add__(self, o):
        if isinstance(o, SL):
            return o.__radd__(self)
        if isinstance(o, _PYNUM) and not isinstance(o, Fraction):
            of = float(o)
            if of == -math.inf:
                return -math.inf      # an SR may denote a log-space value: x + (-inf) is log-zero
            if of == 0 or (of == 1e-100 and ST.kappa_zero):
                return self       # kappa regulariser (Factor.log's +1e-100) is checked at kappa = 0
        o = self._coerce(o)
        if o is None:
            return NotImplemented
        o = SR.lift(o)
        if self.sg == "z":
            return o
        if o.sg == "z":
            return self
        sg = _sg_add(self.sg, o.sg)
        if _feq(self.f, o.f):
            return SR(t_add(self.n, o.n), self.f, sg, ("add", self, o))
        com = _common(self.f, o.f)
        a = _poly(self.n, _fmul(self.f, com, -1))
        b = _poly(o.n, _fmul(o.f, com, -1))
        return SR(t_add(a, b), com, sg, ("add", self, o))

    __radd__ = __add__

    def __neg__(self):
        return SR(t_neg(self.n), self.f, _sg_neg(self.sg), ("scale", self, Fraction(-1)))

    def __pos__(self):
        return self

    def __sub__(self, o):
        if isinstance(o, SL):
            return (-o).__radd__(self)
        if isinstance(o, _PYNUM) and not isinstance(o, Fraction) and float(o) == -math.inf:
            raise Poison("x - (-inf)")
        o2 = self._coerce(o)
        if o2 is None:
            return NotImplemented
        o2 = SR.lift(o2)
        if o2 is self or (self.n.eq(o2.n) and _feq(self.f, o2.f)):
            return SR(_ZERO)
        return self + (-o2)

    def __rsub__(self, o):
        if isinstance(o, _PYNUM) and not isinstance(o, Fraction) and float(o) == -math.inf:
            return -math.inf
        o2 = self._coerce(o)
        if o2 is None:
            return NotImplemented
        return SR.lift(o2) + (-self)

    def __mul__(self, o):
        if isinstance(o, SL):
            return o.__rmul__(self)
        if isinstance(o, _PYNUM) and not isinstance(o, Fraction):
            of = float(o)
            if math.isinf(of):
                if self.sg == "p":
                    return of
                if self.sg == "n":
                    return -of
                raise Poison("symbolic * inf with unknown sign")
        o = self._coerce(o)
        if o is None:
            return NotImplemented
        o = SR.lift(o)
        sg = _sg_mul(self.sg, o.sg)
        if sg == "z":
            return SR(_ZERO)
        src = None
        if o.is_const():
            src = ("scale", self, o.constval())
        elif self.is_const():
            src = ("scale", o, self.constval())
        return SR(t_mul(self.n, o.n), _fmul(self.f, o.f), sg, src)

    __rmul__ = __mul__

    def recip(self):
        if self.sg == "z":
            raise Poison("division by literal zero")
        finv = _fmul({}, self.f, -1)
        if is_num(self.n):
            return SR(R(1 / numval(self.n)), finv, self.sg)
        if self.sg == "p":
            a = atomize(self.n)
            return SR(_ONE, _fmul(finv, {a.get_id(): (a, 1)}, -1), "p")
        if self.sg == "n":
            m = t_neg(self.n)
            a = atomize(m)
            return SR(R(-1), _fmul(finv, {a.get_id(): (a, 1)}, -1), "n")
        ST.oblige("div-nonzero", self.n != 0, "division by a value of unknown sign")
        sq = t_mul(self.n, self.n)
        return SR(self.n, _fmul(finv, {sq.get_id(): (sq, 1)}, -1), None)

    def __truediv__(self, o):
        o2 = self._coerce(o)
        if o2 is None:
            return NotImplemented
        return self * SR.lift(o2).recip()

    def __rtruediv__(self, o):
        o2 = self._coerce(o)
        if o2 is None:
            return NotImplemented
        return SR.lift(o2) * self.recip()

    def __pow__(self, k):
        if isinstance(k, SR) and k.is_const():
            k = k.constval()
        if isinstance(k, (float, np.floating)) and float(k).is_integer():
            k = int(k)
        if isinstance(k, (int, np.integer)):
            k = int(k)
            if k == 0:
                return SR(_ONE)
            if k < 0:
                return self.recip() ** (-k)
            out = SR(_tpow(self.n, k), {kk: (t, p * k) for kk, (t, p) in self.f.items()}, None)
            if k % 2 == 0:
                out.sg = "p" if self.sg in ("p", "n") else ("z" if self.sg == "z" else "nn")
            else:
                out.sg = self.sg
            return out
        if isinstance(k, (float, Fraction)) and Fraction(k) == Fraction(1, 2):
            return self.sqrt()
        raise SymError("SR ** %r unsupported" % (k,))

    def sqrt(self):
        if self.is_const():
            v = self.constval()
            if v < 0:
                raise Poison("sqrt of negative constant")
            r = Fraction(math.isqrt(v.numerator), 1) / Fraction(math.isqrt(v.denominator), 1)
            if r * r == v:
                return SR(R(r))
        if self.sg not in ("p", "nn", "z"):
            ST.oblige("sqrt-nonneg", self.n >= 0, "sqrt argument")
        half = {kk: (t, Fraction(p) / 2) for kk, (t, p) in self.f.items()}
        if is_num(self.n):
            v = numval(self.n)
            r = Fraction(math.isqrt(v.numerator), 1) / Fraction(math.isqrt(v.denominator), 1) if v >= 0 else None
            if r is not None and r * r == v:
                return SR(R(r), half, "p" if v > 0 else "z")
        key = ("sqrt", self.n.get_id())
        w = ST.rootcache.get(key)
        if w is None:
            v = ST.fresh("sqrt")
            ST.assume(v >= 0)
            if self.sg in ("p", "nn", "z"):
                ST.assume(t_mul(v, v) == self.n)
                ST.sq_of[v.get_id()] = self.n
            else:
                # sign not known syntactically: the definition only holds where the argument is >= 0 (a side obligation asks for
                # that); assuming it outright would make the whole path vacuous whenever the argument can be negative
                ST.assume(z3.Implies(self.n >= 0, t_mul(v, v) == self.n))
            ST.roots[str(v)] = (1, 2, self.n)
            ST.rootcache[key] = (v,)
            w = ST.rootcache[key]
        sg = "p" if self.sg == "p" else "nn"
        if sg == "p":
            ST.assume(w[0] > 0)
            # a strictly positive root is an atom of the monomial part (keeps the polynomial part free of it)
            return SR(_ONE, _fmul(half, {w[0].get_id(): (w[0], 1)}), "p")
        return SR(w[0], half, sg)

    def __abs__(self):
        if self.sg in ("p", "nn", "z"):
            return self
        if self.sg == "n":
            return -self
        return SR(z3.If(self.n >= 0, self.n, -self.n), self.f, "nn")

    def sign(self):
        if self.sg == "p":
            return SR(_ONE)
        if self.sg == "z":
            return SR(_ZERO)
        if self.sg == "n":
            return SR(R(-1))
        return SR(z3.If(self.n > 0, _ONE, z3.If(self.n < 0, R(-1), _ZERO)))

    def exp(self):
        """np.exp(SR) : only meaningful as 'log-space SR -> linear space'."""
        c, f = _exp_of_sr(self)
        return SR(R(c), f, "p")

    def log(self):
        """np.log(x): linear -> log space."""
        if self.sg == "z":
            return SL.zero()
        st = "p" if self.sg == "p" else None
        if self.sg not in ("p", "nn"):
            ST.oblige("log-nonneg", self.n >= 0, "log argument")
        if is_num(self.n):
            return SL(numval(self.n), self.f, None, st)
        a = atomize(self.n, positive=(st == "p"))
        return SL(Fraction(1), _fmul(self.f, {a.get_id(): (a, 1)}), None, st)

    # -- comparisons -------------------------------------------------------------------
    def _cmp(self, o, op):
        if isinstance(o, SL):
            raise SymError("comparison SR vs SL")
        if isinstance(o, _PYNUM) and not isinstance(o, Fraction):
            of = float(o)
            if math.isinf(of):
                lt = of > 0   # self < +inf ; self > -inf
                return {"lt": lt, "le": lt, "gt": not lt, "ge": not lt, "eq": False, "ne": True}[op]
        o2 = self._coerce(o)
        if o2 is None:
            return NotImplemented
        o2 = SR.lift(o2)
        if self.is_const() and o2.is_const():
            a, b = self.constval(), o2.constval()
            return {"lt": a < b, "le": a <= b, "gt": a > b, "ge": a >= b, "eq": a == b, "ne": a != b}[op]
        if o2.sg == "z":
            sg = self.sg
            known = {
                "p": {"lt": False, "le": False, "gt": True, "ge": True, "eq": False, "ne": True},
                "z": {"lt": False, "le": True, "gt": False, "ge": True, "eq": True, "ne": False},
                "n": {"lt": True, "le": True, "gt": False, "ge": False, "eq": False, "ne": True},
                "nn": {"lt": False, "ge": True},
            }.get(sg, {})
            if op in known:
                return known[op]
            l, r = self.n, _ZERO
        elif self.sg == "z":
            l, r = _ZERO, o2.n
        else:
            com = _common(self.f, o2.f)
            l = _poly(self.n, _fmul(self.f, com, -1))
            r = _poly(o2.n, _fmul(o2.f, com, -1))
        t = {"lt": l < r, "le": l <= r, "gt": l > r, "ge": l >= r, "eq": l == r, "ne": l != r}[op]
        return _mk_sb(t)

    def __lt__(self, o):
        return self._cmp(o, "lt")

    def __le__(self, o):
        return self._cmp(o, "le")

    def __gt__(self, o):
        return self._cmp(o, "gt")

    def __ge__(self, o):
        return self._cmp(o, "ge")

    def __eq__(self, o):
        r = self._cmp(o, "eq")
        return False if r is NotImplemented else r

    def __ne__(self, o):
        r = self._cmp(o, "ne")
        return True if r is NotImplemented else r

    __hash__ = Sym.__hash__

    def __repr__(self):
        s = " ".join(str(self.term()).split())
        return "SR(%s)" % (s if len(s) < 90 else s[:87] + "...")


# ----------------------------------------------------------------------------------------
# log-space scalar
# ----------------------------------------------------------------------------------------
def _lincomb(x, scale, out, depth=0):
    """expand an SR into  sum coeff_i * leaf_i  over its additive provenance (leaves: anything not built by +,-,const*)"""
    src = x.src
    if src is None or depth > 200:
        if x.is_const():
            if x.constval() != 0:
                t = R(1)
                k = ("const",)
                prev = out.get(k, (t, Fraction(0)))
                out[k] = (t, prev[1] + scale * x.constval())
            return
        t = x.term()
        k = t.get_id()
        prev = out.get(k, (t, Fraction(0)))
        out[k] = (t, prev[1] + scale)
        return
    if src[0] == "add":
        _lincomb(src[1], scale, out, depth + 1)
        _lincomb(src[2], scale, out, depth + 1)
    else:
        _lincomb(src[1], scale * Fraction(src[2]), out, depth + 1)


def _exp_of_sr(x):
    """(c, f): exp(x) as a monomial of exp-atoms, one atom per additive leaf of x"""
    comb = {}
    _lincomb(x, Fraction(1), comb)
    f = {}
    for k, (t, coeff) in comb.items():
        if coeff == 0:
            continue
        if k == ("const",):
            e = E_atom(R(coeff))
            coeff = Fraction(1)
        else:
            e = E_atom(t)
        if is_num(e):
            continue
        if abs(coeff).denominator > 64:
            # irrational-looking multiple: make the scaled leaf its own atom
            e = E_atom(t * R(coeff))
            coeff = Fraction(1)
        f = _fmul(f, {e.get_id(): (e, coeff)})
    return Fraction(1), f


class SL(Sym):
    """log(V),  V = c * prod_i atom_i**p_i * E(a) >= 0.
    c: Fraction >= 0; atoms: z3 terms known to be >= 0 (variables, sums of monomials, exp-atoms), p_i rational (negative =
    denominator).  Keeping the monomial factored lets a message divided by itself cancel syntactically.
    st in {'z' (V=0, i.e. -inf), 'p' (V>0), None (V>=0 unknown), 'bad' (+inf / nan: poison, error only if used)}."""
    __slots__ = ("c", "f", "a", "st", "why")

    def __init__(self, c, f, a=None, st=None, why=None):
        self.c = c
        self.f = f
        self.a = a
        if st is None and not f:
            st = "z" if c == 0 else "p"
        self.st = st
        self.why = why

    @staticmethod
    def zero():
        return SL(Fraction(0), {}, None, "z")

    @staticmethod
    def one():
        return SL(Fraction(1), {}, None, "p")

    @staticmethod
    def bad(why):
        return SL(Fraction(1), {}, None, "bad", why)

    @staticmethod
    def var(name, positive=True):
        """log of a fresh variable V; positive=True: V>0 (finite log-potential); False: V>=0 unknown."""
        v = z3.Real(name)
        if positive:
            ST.assume(v > 0)
            return SL(Fraction(1), {v.get_id(): (v, 1)}, None, "p")
        ST.assume(v >= 0)
        return SL(Fraction(1), {v.get_id(): (v, 1)}, None, None)

    @staticmethod
    def from_frac(n, d, a=None, st=None):
        """log(n/d * E(a)) for z3 terms n >= 0, d > 0"""
        c = Fraction(1)
        f = {}
        if is_num(n):
            c *= numval(n)
        else:
            n = atomize(n, positive=(st == "p"))
            f = _fmul(f, {n.get_id(): (n, 1)})
        if is_num(d):
            c /= numval(d)
        else:
            d = atomize(d)
            f = _fmul(f, {d.get_id(): (d, 1)}, -1)
        if c == 0:
            return SL.zero()
        return SL(c, f, a, st)

    @staticmethod
    def lift(x):
        """anything that may sit in a log-space array -> SL"""
        if isinstance(x, SL):
            return x
        # exp(t) of a linear-space term t is one positive atom E(t); products of atoms are kept as products (no merging of
        # exponents), so that the same quantity reached as E(x)E(y) on two routes is the same monomial
        if isinstance(x, SR):
            if x.is_const() and x.constval() == 0:
                return SL.one()
            c, f = _exp_of_sr(x)
            return SL(c, f, None, "p")
        if isinstance(x, _PYNUM):
            xf = float(x)
            if xf == -math.inf:
                return SL.zero()
            if xf == 0:
                return SL.one()
            if math.isinf(xf) or math.isnan(xf):
                return SL.bad("float %r in log space" % xf)
            e = E_atom(R(x if isinstance(x, (int, Fraction)) else xf))
            return SL(Fraction(1), {e.get_id(): (e, 1)}, None, "p")
        raise SymError("cannot lift %r to SL" % (x,))

    # V as a fraction of z3 terms (E atom materialised)
    def vfrac(self):
        self._use()
        n, d = _materialise(self.c, self.f)
        if self.a is not None:
            n = t_mul(n, E_atom(self.a))
        return n, d

    @property
    def cn(self):
        return _materialise(self.c, self.f)[0]

    def _use(self):
        if self.st == "bad":
            raise Poison(self.why or "poisoned log-space value used")

    def is_zero(self):
        """python bool when syntactically known, else SB"""
        self._use()
        if self.st == "z":
            return True
        if self.st == "p":
            return False
        return _mk_sb(_materialise(self.c, self.f)[0] == 0)

    # -- log-space arithmetic ------------------------------------------------------------
    def __add__(self, o):
        if not isinstance(o, (SL, SR) + _PYNUM):
            return NotImplemented
        o = SL.lift(o)
        if self.st == "bad":
            return self
        if o.st == "bad":
            return o
        if self.st == "z" or o.st == "z":
            return SL.zero()
        a = self.a if o.a is None else (o.a if self.a is None else self.a + o.a)
        st = "p" if (self.st == "p" and o.st == "p") else None
        return SL(self.c * o.c, _fmul(self.f, o.f), a, st)

    __radd__ = __add__

    def __neg__(self):
        if self.st == "bad":
            return self
        if self.st == "z":
            return SL.bad("-(-inf) = +inf")
        if self.st != "p":
            ST.oblige("neg-log-finite", _materialise(self.c, self.f)[0] != 0, "negating a log value that may be -inf")
        return SL(1 / self.c, _fmul({}, self.f, -1), None if self.a is None else -self.a, "p" if self.st == "p" else None)

    def __sub__(self, o):
        if not isinstance(o, (SL, SR) + _PYNUM):
            return NotImplemented
        o = SL.lift(o)
        if o.st == "z":
            return SL.bad("x - (-inf)")
        return self + (-o)

    def __rsub__(self, o):
        if not isinstance(o, (SL, SR) + _PYNUM):
            return NotImplemented
        return SL.lift(o) + (-self)

    def __mul__(self, k):
        """k * log V  =  log V**k  for a concrete rational k"""
        if isinstance(k, SR):
            if not k.is_const():
                raise SymError("symbolic multiple of a log-space value")
            k = k.constval()
        if isinstance(k, SL):
            raise SymError("product of two log-space values")
        if not isinstance(k, _PYNUM):
            return NotImplemented
        if self.st == "bad":
            return self
        kf = Fraction(k) if not isinstance(k, Fraction) else k
        if kf.denominator > 64:
            kf = kf.limit_denominator(64)      # float spellings of 1/3 etc.
            if abs(float(kf) - float(k)) > 1e-12:
                raise SymError("irrational-looking multiple %r of a log-space value" % (k,))
        if kf == 1:
            return self
        if kf == 0:
            if self.st == "z":
                return SL.bad("0 * -inf")
            return SL.one()
        if kf < 0:
            return (-self) * (-kf)
        if self.st == "z":
            return self
        a = None if self.a is None else self.a * R(kf)
        c, f = self.c, self.f
        if kf.denominator == 1:
            c2 = c ** kf.numerator
        elif c == 1:
            c2 = c
        else:
            t = R(c)
            f = _fmul(f, {t.get_id(): (t, 1)})
            c2 = Fraction(1)
        f2 = {k_: (t, p * kf) for k_, (t, p) in f.items()}
        return SL(c2, f2, a, self.st)

    __rmul__ = __mul__

    def __truediv__(self, k):
        if isinstance(k, SR) and k.is_const():
            k = k.constval()
        if isinstance(k, _PYNUM):
            return self * (Fraction(1) / Fraction(k))
        raise SymError("log-space value divided by %r" % (k,))

    def exp(self):
        if self.st == "z":
            return SR(_ZERO)
        self._use()
        f = self.f
        if self.a is not None:
            e = E_atom(self.a)
            if not is_num(e):
                f = _fmul(f, {e.get_id(): (e, 1)})
        return SR(R(self.c), f, "p" if self.st == "p" else "nn")

    def log(self):
        raise SymError("log of a log-space value")

    # comparisons (monotone in V)
    def _cmp(self, o, op):
        if isinstance(o, _PYNUM):
            of = float(o)
            if of == -math.inf:
                z = self.is_zero()
                nz = (not z) if isinstance(z, bool) else ~z
                return {"eq": z, "ne": nz, "gt": nz, "ge": True, "lt": False, "le": z}[op]
            if of == math.inf:
                self._use()
                return {"lt": True, "le": True, "gt": False, "ge": False, "eq": False, "ne": True}[op]
        if not isinstance(o, (SL, SR) + _PYNUM):
            return NotImplemented
        o = SL.lift(o)
        if self.st == "z" and o.st == "z":
            return {"lt": False, "le": True, "gt": False, "ge": True, "eq": True, "ne": False}[op]
        if self.st == "z" and o.st == "p":
            return {"lt": True, "le": True, "gt": False, "ge": False, "eq": False, "ne": True}[op]
        if self.st == "p" and o.st == "z":
            return {"lt": False, "le": False, "gt": True, "ge": True, "eq": False, "ne": True}[op]
        an, ad = self.vfrac()
        bn, bd = o.vfrac()
        l, r = t_mul(an, bd), t_mul(bn, ad)
        t = {"lt": l < r, "le": l <= r, "gt": l > r, "ge": l >= r, "eq": l == r, "ne": l != r}[op]
        return _mk_sb(t)

    def __lt__(self, o):
        return self._cmp(o, "lt")

    def __le__(self, o):
        return self._cmp(o, "le")

    def __gt__(self, o):
        return self._cmp(o, "gt")

    def __ge__(self, o):
        return self._cmp(o, "ge")

    def __eq__(self, o):
        r = self._cmp(o, "eq")
        return False if r is NotImplemented else r

    def __ne__(self, o):
        r = self._cmp(o, "ne")
        return True if r is NotImplemented else r

    __hash__ = Sym.__hash__

    def __repr__(self):
        if self.st == "z":
            return "SL(-inf)"
        if self.st == "bad":
            return "SL(bad:%s)" % self.why
        n, d = _materialise(self.c, self.f)
        s = "log(%s/%s)" % (n, d) if not t_isone(d) else "log(%s)" % n
        if self.a is not None:
            s += "+(%s)" % self.a
        s = " ".join(s.split())
        return "SL(%s)" % (s if len(s) < 90 else s[:87] + "...")


def sl_sum(items):
    """logsumexp of an iterable of SL: log(sum V_i), with the common monomial factored out."""
    nz = []
    for x in items:
        if x.st == "bad":
            raise Poison(x.why or "poisoned value in logsumexp")
        if x.st != "z":
            nz.append(x)
    if not nz:
        return SL.zero()
    if len(nz) == 1:
        return nz[0]
    a0 = nz[0].a
    same_a = all((x.a is None and a0 is None) or (x.a is not None and a0 is not None and x.a.eq(a0)) for x in nz)
    if same_a:
        monos = [(x.c, x.f) for x in nz]
        a = a0
    else:
        monos = []
        for x in nz:
            f = x.f
            if x.a is not None:
                e = E_atom(x.a)
                f = _fmul(f, {e.get_id(): (e, 1)})
            monos.append((x.c, f))
        a = None
    # common factor: per atom the minimum power over all summands (0 where absent)
    keys = set()
    for _, f in monos:
        keys.update(f.keys())
    common = {}
    for k in keys:
        ps = [f[k][1] if k in f else 0 for _, f in monos]
        m = min(ps)
        if m != 0:
            t = next(f[k][0] for _, f in monos if k in f)
            common[k] = (t, m)
    terms = []
    for c, f in monos:
        rest = _fmul(f, common, -1)
        n, d = _materialise(c, rest)
        if not t_isone(d):
            # only a rational constant can remain in the denominator here
            n = t_mul(n, R(1 / numval(d))) if is_num(d) else n / d
        terms.append(n)
    # deterministic order => identical sums are the identical atom
    terms.sort(key=lambda t: t.get_id())
    tot = terms[0]
    for t in terms[1:]:
        tot = t_add(tot, t)
    st = "p" if any(x.st == "p" for x in nz) else None
    if is_num(tot):
        return SL(numval(tot), common, a, st)
    tot = atomize(tot, positive=(st == "p"))
    return SL(Fraction(1), _fmul(common, {tot.get_id(): (tot, 1)}), a, st)


def is_sym(x):
    return isinstance(x, Sym)


def has_sym(arr):
    if isinstance(arr, Sym):
        return True
    if isinstance(arr, np.ndarray) and arr.dtype == object:
        return any(isinstance(x, Sym) for x in arr.flat)
    return False


def sr_max(xs):
    """max of reals as an If-term (no path fork); the common positive monomial is factored out of the comparison"""
    xs = [x if isinstance(x, SR) else SR.lift(x) for x in xs]
    out = xs[0]
    for x in xs[1:]:
        if out.is_const() and x.is_const():
            out = out if out.constval() >= x.constval() else x
            continue
        com = _common(out.f, x.f)
        a = _poly(out.n, _fmul(out.f, com, -1))
        b = _poly(x.n, _fmul(x.f, com, -1))
        sg = "nn" if (out.sg in ("p", "nn", "z") or x.sg in ("p", "nn", "z")) else None
        if out.sg == "p" or x.sg == "p":
            sg = "p"
        out = SR(z3.If(a >= b, a, b), com, sg)
    return out


class SymArray(np.ndarray):
    """ndarray whose max()/min() over symbolic reals build If-terms instead of forcing comparisons to concrete bools"""

    def max(self, axis=None, out=None, **kw):
        if axis is None and self.dtype == object and any(isinstance(v, Sym) for v in self.flat):
            return sr_max(list(self.flat))
        return np.ndarray.max(self.view(np.ndarray), axis=axis, out=out, **kw)

    def min(self, axis=None, out=None, **kw):
        if axis is None and self.dtype == object and any(isinstance(v, Sym) for v in self.flat):
            return -sr_max([-v for v in self.flat])
        return np.ndarray.min(self.view(np.ndarray), axis=axis, out=out, **kw)

"""symx.values -- one scenario, two value domains.

A scenario is ordinary Python that builds inputs through a `V` factory, drives the real repo code and
returns (label, got, want) triples.  With V = SymVals the inputs are z3-backed scalars and the triples become
solver obligations; with V = FloatVals the very same scenario runs the *unshimmed* real code on floats
(fidelity test of the encoding, and replay of counterexamples).
"""
import math
import random

import numpy as np

from . import core, solve
from .core import SL, SR, ST, sl_sum


class SymVals:
    symbolic = True

    def __init__(self):
        self.names = []     # (name, kind, sg)

    def real(self, name, sg=None):
        self.names.append((name, "real", sg))
        return SR.var(name, sg)

    def logv(self, name, zero=False):
        """a log-space input: log(V) with V>0 a fresh variable called `name`, or literal -inf"""
        if zero:
            self.names.append((name, "logzero", None))
            return SL.zero()
        self.names.append((name, "log", "p"))
        return SL.var(name, positive=True)

    def const(self, x):
        return x

    # oracle-side operations -----------------------------------------------------------
    def lse(self, xs):
        return sl_sum([SL.lift(x) for x in xs])

    def exp(self, x):
        return SL.lift(x).exp() if not isinstance(x, SL) else x.exp()

    def log(self, x):
        return SR.lift(x).log() if not isinstance(x, SR) else x.log()

    def sum(self, xs):
        out = 0
        for x in xs:
            out = out + x
        return out

    def is_neginf(self, x):
        if isinstance(x, SL):
            return x.st == "z"
        return isinstance(x, float) and x == -math.inf

    def ge(self, a, b):
        """a >= b exactly (floats: up to rounding)"""
        return a >= b

    def le(self, a, b):
        return a <= b

    def array(self, shape, fn):
        a = np.empty(shape, dtype=object)
        for idx in np.ndindex(*shape):
            a[idx] = fn(idx)
        return a


class FloatVals:
    symbolic = False

    def __init__(self, env=None, rng=None):
        self.env = dict(env or {})
        self.rng = rng or random.Random(0)

    def _get(self, name, sg):
        if name in self.env:
            return float(self.env[name])
        if sg == "p":
            v = math.exp(self.rng.uniform(-1.5, 1.5))
        elif sg == "nn":
            v = abs(self.rng.uniform(-1, 2))
        elif sg == "n":
            v = -math.exp(self.rng.uniform(-1.5, 1.5))
        else:
            v = self.rng.uniform(-2, 2)
        self.env[name] = v
        return v

    def real(self, name, sg=None):
        return self._get(name, sg)

    def logv(self, name, zero=False):
        if zero:
            return -math.inf
        return math.log(self._get(name, "p"))

    def const(self, x):
        return x

    def lse(self, xs):
        xs = [float(x) for x in xs]
        m = max(xs)
        if m == -math.inf:
            return -math.inf
        return m + math.log(sum(math.exp(x - m) for x in xs))

    def exp(self, x):
        return math.exp(x) if x != -math.inf else 0.0

    def log(self, x):
        return math.log(x) if x > 0 else -math.inf

    def sum(self, xs):
        return math.fsum(xs)

    def is_neginf(self, x):
        return x == -math.inf

    def ge(self, a, b, tol=1e-9):
        return bool(a >= b - tol * (1 + abs(a) + abs(b)))

    def le(self, a, b, tol=1e-9):
        return bool(a <= b + tol * (1 + abs(a) + abs(b)))

    def array(self, shape, fn):
        a = np.empty(shape, dtype=float)
        for idx in np.ndindex(*shape):
            a[idx] = fn(idx)
        return a


def close(a, b, tol=1e-7):
    a, b = float(a), float(b)
    if math.isnan(a) or math.isnan(b):
        return False
    if a == b:
        return True
    if math.isinf(a) or math.isinf(b):
        return False
    return abs(a - b) <= tol * (1 + abs(a) + abs(b))


def sym_to_float(x, env):
    """numeric value of a symbolic result (SR -> value, SL -> log value)"""
    if isinstance(x, core.Sym):
        return solve.eval_sym(x, env)
    return float(x)


def check_triples(res, triples, timeout_ms=20000, tol=None, tag=""):
    """turn (label, got, want) triples from a symbolic run into obligations on `res`"""
    for label, got, want in triples:
        what = "%s%s" % (tag, label)
        try:
            if isinstance(got, core.SL) and got.st == "bad":
                res.ob("sat", what, {"kind": "poison", "why": got.why})
                continue
            if isinstance(want, bool) or isinstance(got, bool):
                res.ob("unsat" if got == want else "sat", what, {"kind": "bool"})
                continue
            if isinstance(got, core.SL) != isinstance(want, core.SL):
                # one side log-space: compare in log space
                got, want = SL.lift(got), SL.lift(want)
            v, model, _ = solve.prove_eq(got, want, timeout_ms=timeout_ms, tol=tol)
        except core.Poison as e:
            res.ob("sat", what, {"kind": "poison", "why": str(e)})
            continue
        cand = None
        if v == "sat":
            cand = {"kind": "model", "env": solve.model_env(model)}
        res.ob(v, what, cand)


def float_compare(triples, tol=1e-7):
    """-> list of (label, got, want) that disagree numerically"""
    bad = []
    for label, got, want in triples:
        try:
            g, w = float(got), float(want)
        except (TypeError, ValueError):
            if got != want:
                bad.append((label, str(got), str(want)))
            continue
        if not close(g, w, tol):
            bad.append((label, g, w))
    return bad


# ----------------------------------------------------------------------------------------
# generic driver: explore all paths of a scenario symbolically, then cross-check with floats
# ----------------------------------------------------------------------------------------
VACUITY = {"on": True, "timeout_ms": 4000}
REAL_EXC = (AssertionError, ValueError, IndexError, KeyError, TypeError, AttributeError, ZeroDivisionError,
            FloatingPointError, RuntimeError, NotImplementedError, StopIteration, OverflowError)


def run_scenario(res, scenario, max_paths=64, max_decisions=60, timeout_ms=20000, tol=None, fidelity=True,
                 rng=None, mono=False, tag="", batch=True, branch_timeout_ms=1500):
    """scenario(V) -> list of (label, got, want).  Obligations are recorded on `res`."""
    from . import shims
    ex = solve.Explorer(max_paths=max_paths, max_decisions=max_decisions, mono=mono,
                        branch_timeout_ms=branch_timeout_ms)
    store = []

    def once():
        V = SymVals()
        try:
            triples = scenario(V)
        except core.Poison as e:
            res.ob("sat", tag + "poison", {"kind": "poison", "why": str(e), "path": [str(c) for c in ST.pathcond][:8]})
            return 0
        except solve.PathAbort:
            raise
        except core.SymError:
            raise
        except REAL_EXC as e:
            import traceback
            tb = traceback.extract_tb(e.__traceback__)
            where = [f for f in tb if shims.REPO in f.filename]
            loc = "%s:%d" % (where[-1].filename.replace(shims.REPO + "/", ""), where[-1].lineno) if where else "?"
            res.ob("sat", tag + "exception", {"kind": "exception", "exc": "%s: %s" % (type(e).__name__, e),
                                              "where": loc, "path": [str(c) for c in ST.pathcond][:8]})
            return 0
        if batch:
            check_triples_batched(res, triples, timeout_ms=timeout_ms, tol=tol, tag=tag)
        else:
            check_triples(res, triples, timeout_ms=timeout_ms, tol=tol, tag=tag)
        # side obligations emitted by partial primitives on this path
        for kind, goal, info in ST.obligations:
            v, model, _ = solve.prove(goal, timeout_ms=timeout_ms)
            res.ob(v, "%sside:%s:%s" % (tag, kind, info),
                   {"kind": "model", "env": solve.model_env(model)} if v == "sat" else None)
        # vacuity guard: the assumptions together with this path's condition must be satisfiable (reachability witness);
        # `unsat` means every obligation above was discharged vacuously
        if VACUITY["on"]:
            v, _, _ = solve.check_sat(solve.expanded_assumptions() + [core.expand_defs(c) for c in ST.pathcond], timeout_ms=VACUITY["timeout_ms"])
            res.vacuity = getattr(res, "vacuity", {"sat": 0, "unsat": 0, "unknown": 0})
            res.vacuity[v] = res.vacuity.get(v, 0) + 1
            if v == "unsat":
                res.unknown.append({"what": tag + "VACUOUS: assumptions and path condition are contradictory on a path that discharged obligations"})
        store.append((list(ST.pathcond), triples, dict(ST.evar_of), dict(ST.roots), dict(ST.defs)))
        return len(triples)

    outcomes = ex.run(once)
    res.paths += len(outcomes)
    for kind, taken, out in outcomes:
        if kind == "bound":
            res.unknown.append({"what": tag + "path bound hit: %s" % out})
        elif kind == "infeasible":
            res.unknown.append({"what": tag + "a path ended with contradictory assumptions (vacuous): %s" % out})
    if store and len(res.samples) < 3:
        pc, triples = store[0][0], store[0][1]
        if triples:
            l, g, w = triples[len(triples) // 2]
            res.samples.append({"obligation": tag + str(l), "got": repr(g)[:160], "want": repr(w)[:160],
                                "path_condition": [str(c)[:80] for c in pc][:4]})
    if fidelity and store:
        rng = rng or random.Random(1)
        F = FloatVals(rng=rng)
        try:
            with shims.shims_off():
                ftriples = scenario(F)
        except REAL_EXC as e:
            res.notes.append("float run raised %s: %s" % (type(e).__name__, e))
            ftriples = None
        if ftriples is not None:
            for pc, triples, evar_of, roots, defs in store:
                old = (ST.evar_of, ST.roots, ST.defs)
                ST.evar_of, ST.roots, ST.defs = evar_of, roots, defs
                try:
                    try:
                        ok = all(solve.evalf(c, F.env) for c in pc)
                    except (KeyError, ZeroDivisionError, OverflowError, ValueError, ArithmeticError, TypeError):
                        ok = False
                    if not ok:
                        continue
                    if any(_on_boundary(c, F.env, 1e-7) for c in pc):
                        break      # a branch condition is an equality (up to rounding) at this point: the float run may take either side
                    flab = {}
                    for l2, g2, _ in ftriples:
                        flab.setdefault(l2, g2)
                    common_labels = [(l1, g1, flab[l1]) for l1, g1, _ in triples if l1 in flab]
                    if not common_labels and triples and ftriples:
                        res.fidelity_fail.append("%sno result label in common between the symbolic and the float run" % tag)
                        break
                    for l1, g1, g2 in common_labels:
                        try:
                            if isinstance(g1, core.SL) and g1.st == "bad":
                                continue
                            if isinstance(g1, core.SB):
                                s1 = bool(solve.evalf(g1.t, F.env))
                                same = s1 == bool(g2)
                                if not same and _on_boundary(g1.t, F.env):
                                    continue      # a comparison that is an equality at this point: rounding decides it either way
                            elif isinstance(g1, (bool, str, tuple)) or isinstance(g2, (bool, np.bool_, str, tuple)):
                                same = g1 == g2
                                s1 = g1
                            else:
                                s1 = sym_to_float(g1, F.env)
                                if math.isnan(s1) or math.isinf(s1):
                                    continue        # float overflow while *evaluating* the term (huge exp arguments): not a comparison
                                same = close(s1, float(g2), 1e-6)
                        except (KeyError, ZeroDivisionError, OverflowError, ValueError, ArithmeticError, TypeError) as e:
                            continue
                        res.fidelity += 1
                        if not same:
                            res.fidelity_fail.append("%s%s: symbolic %r vs real %r" % (tag, l1, s1, g2))
                            break
                    break
                finally:
                    ST.evar_of, ST.roots, ST.defs = old
    return outcomes


def check_triples_batched(res, triples, timeout_ms=20000, tol=None, tag=""):
    """rewriter first per triple; the residues that remain go to the solver in one disjunctive query,
    and only if that is not unsat are they decided one by one."""
    import z3
    pending = []
    for label, got, want in triples:
        what = "%s%s" % (tag, label)
        if isinstance(got, core.SL) and got.st == "bad":
            res.ob("sat", what, {"kind": "poison", "why": got.why})
            continue
        if isinstance(got, core.SB):
            if want is not True:
                raise core.SymError("symbolic bool obligations must be stated as `got is True`")
            v, model, _ = solve.prove(got.t, timeout_ms=timeout_ms)
            res.ob(v, what, {"kind": "model", "env": solve.model_env(model)} if v == "sat" else None)
            continue
        if isinstance(got, (int, float, np.floating)) and isinstance(want, (int, float, np.floating)) and not isinstance(got, bool):
            same = (float(got) == float(want)) or (math.isnan(float(got)) and math.isnan(float(want)))
            res.ob("unsat" if same else "sat", what, {"kind": "structural", "got": str(got), "want": str(want)})
            continue
        if isinstance(want, (bool, np.bool_, str, tuple, int)) and not isinstance(got, core.Sym) or isinstance(got, (bool, np.bool_, str, tuple)):
            if got == want:
                res.ob("unsat", what)
            else:
                # a witness of the path on which the structural mismatch happened (inputs for the replay)
                env = {}
                if ST.pathcond:
                    v, model, _ = solve.check_sat(list(ST.assumptions) + [core.expand_defs(c) for c in ST.pathcond], timeout_ms=10000)
                    if v == "sat":
                        env = solve.model_env(model)
                res.ob("sat", what, {"kind": "structural", "got": str(got), "want": str(want), "env": env})
            continue
        if got is want or _same_term(got, want):
            solve.STATS.trivial += 1
            res.ob("unsat", what)
            continue
        try:
            if isinstance(got, core.SL) != isinstance(want, core.SL):
                got, want = SL.lift(got), SL.lift(want)
            an, ad = solve._frac(got)
            bn, bd = solve._frac(want)
        except core.Poison as e:
            res.ob("sat", what, {"kind": "poison", "why": str(e)})
            continue
        if an is None or bn is None:
            if an is None and bn is None:
                solve.STATS.trivial += 1
                res.ob("unsat", what)
            else:
                x = bn if an is None else an
                pending.append((what, x == 0, got, want))
            continue
        if tol is not None:
            pending.append((what, None, got, want))
            continue
        r = solve.residue_zero(an, ad, bn, bd)
        if core.is_num(r):
            if core.numval(r) == 0:
                solve.STATS.trivial += 1
                res.ob("unsat", what)
            else:
                res.ob("sat", what, {"kind": "model", "env": {}})
            continue
        pending.append((what, r == 0, got, want))
    goals = [p for p in pending if p[1] is not None]
    if len(goals) > 1:
        v, model, _ = solve.prove(z3.And([g[1] for g in goals]), timeout_ms=min(timeout_ms, 15000))
        if v == "unsat":
            for what, _, _, _ in goals:
                res.ob("unsat", what)
            pending = [p for p in pending if p[1] is None]
    for what, goal, got, want in pending:
        if goal is None:
            v, model, _ = solve.prove_eq(got, want, timeout_ms=timeout_ms, tol=tol)
        else:
            v, model, _ = solve.prove(goal, timeout_ms=timeout_ms)
        res.ob(v, what, {"kind": "model", "env": solve.model_env(model)} if v == "sat" else None)


def _on_boundary(t, env, tol=1e-9):
    """is the (in)equality t within rounding distance of its boundary at env?"""
    import z3
    try:
        if z3.is_not(t):
            return _on_boundary(t.children()[0], env, tol)
        if z3.is_le(t) or z3.is_ge(t) or z3.is_lt(t) or z3.is_gt(t) or z3.is_eq(t):
            a, b = (solve.evalf(c, env) for c in t.children())
            return abs(a - b) <= tol * (1 + abs(a) + abs(b))
        if z3.is_and(t) or z3.is_or(t):
            return any(_on_boundary(c, env, tol) for c in t.children())
    except (KeyError, ZeroDivisionError, OverflowError, ValueError, TypeError, ArithmeticError):
        return True
    return False


def _same_term(a, b):
    """syntactically the same value (same numerator term, same factor dict)"""
    if isinstance(a, core.SR) and isinstance(b, core.SR):
        return a.n.eq(b.n) and core._feq(a.f, b.f)
    if isinstance(a, core.SL) and isinstance(b, core.SL):
        return a.st == b.st and a.st != "bad" and a.c == b.c and core._feq(a.f, b.f)
    return False


def replay_scenario(scenario, cand, tries=3, tol=1e-6, seed=7):
    """run the unshimmed real code on floats: first at the solver's model, then at random points"""
    envs = []
    if cand.get("env"):
        envs.append(dict(cand["env"]))
    rng = random.Random(seed)
    for _ in range(tries):
        envs.append(None)
    last = None
    for env in envs:
        F = FloatVals(env=env, rng=rng)
        try:
            triples = scenario(F)
        except REAL_EXC as e:
            return {"reproduced": True, "detail": "real code raised %s: %s" % (type(e).__name__, e), "inputs": F.env}
        bad = float_compare(triples, tol)
        if bad:
            return {"reproduced": True, "detail": "real code disagrees with the oracle: %s" % (bad[:4],),
                    "n_bad": len(bad), "inputs": F.env}
        last = F.env
    return {"reproduced": False, "detail": "real code agreed with the oracle at the model point and %d random points" % tries}

"""symx.shims -- load the repository's modules from the working tree and shadow a few names in
their *module namespaces* so that the untouched function bodies run on symbolic scalars.

Every shim is listed in SHIM_CONTRACTS; evidence files quote that list.
"""
import builtins
import hashlib
import importlib
import importlib.util
import inspect
import math
import os
import sys
import types
from fractions import Fraction

import numpy as _np
import scipy.special as _sps

from . import core
from .core import SL, SR, Sym, ST, has_sym, sl_sum

REPO = os.environ.get("VERIF_REPO", "/repo")

SHIM_CONTRACTS = {
    "np.zeros/np.ones": "object-dtype arrays of python floats 0.0/1.0 (same values as numpy)",
    "logsumexp": "mathematical definition log(sum(exp(x))) over the given axes; scipy's max-subtraction stabilisation is outside the claim",
    "softmax": "mathematical definition exp(x_i)/sum_j exp(x_j)",
    "np.logaddexp": "log(exp(a)+exp(b))",
    "np.sign": "If-term sign(x) per lane",
    "float": "identity on symbolic scalars",
    "sparse @ object-array": "dense product toarray() @ x",
    "exp": "uninterpreted positive constant per distinct argument (+ sound axiom instances), products merged by exp(a)exp(b)=exp(a+b)",
    "1e-100 / nextafter(0,1) regularisers": "taken as 0 (their effect is <= 1e-100 absolute)",
    "lsmr": "contract: returns the exact minimum-norm least-squares solution (computed in rationals); convergence of scipy's iterative lsmr is outside the claim",
    "np.allclose": "evaluated on the concrete (rational) operands",
    "np.histogramdd": "definition: cell = sum of the weights of the records that fall in it (only when the weights are symbolic)",
    "np.log(concrete)": "log of a concrete positive number stays exact in log space",
    "eigsh": "contract: largest eigenvalue of the symmetric operator, computed densely (deterministic), rounded to 12 digits",
}


# ----------------------------------------------------------------------------------------
# function shims
# ----------------------------------------------------------------------------------------
def _obj(a):
    if isinstance(a, _np.ndarray):
        return a
    out = _np.empty((), dtype=object)
    out[()] = a
    return out


def sym_logsumexp(a, axis=None, b=None, keepdims=False, return_sign=False):
    if b is not None or return_sign:
        raise core.SymError("logsumexp(b=/return_sign=) not modelled")
    if not (has_sym(a) or (isinstance(a, _np.ndarray) and a.dtype == object) or LIFT_ALL["on"]):
        return _sps.logsumexp(a, axis=axis, keepdims=keepdims)
    arr = _obj(a)
    lifted = _np.empty(arr.shape, dtype=object)
    for idx in _np.ndindex(arr.shape):
        lifted[idx] = SL.lift(arr[idx])
    if arr.ndim == 1:
        ST.events.append(("logsumexp", list(arr)))
    if axis is None:
        axes = tuple(range(arr.ndim))
    elif isinstance(axis, (int, _np.integer)):
        axes = (int(axis),)
    else:
        axes = tuple(int(x) for x in axis)
    axes = tuple(ax % arr.ndim for ax in axes) if arr.ndim else ()
    keep = [i for i in range(arr.ndim) if i not in axes]
    if arr.ndim == 0:
        return lifted[()]
    moved = _np.transpose(lifted, keep + list(axes))
    kshape = tuple(arr.shape[i] for i in keep)
    out = _np.empty(kshape, dtype=object)
    for idx in _np.ndindex(kshape):
        sub = moved[idx]
        out[idx] = sl_sum(list(_obj(sub).flat))
    if keepdims:
        shp = [1 if i in axes else arr.shape[i] for i in range(arr.ndim)]
        return out.reshape(shp)
    if out.ndim == 0:
        return out[()]
    return out


LIFT_ALL = {"on": True}
LOG_EXACT = {"on": True}   # logsumexp of pure-float object arrays still goes symbolic (exact log(8) etc.)


def sym_softmax(x, axis=None):
    if not has_sym(x):
        return _sps.softmax(x, axis=axis)
    arr = _obj(x)
    if arr.ndim != 1:
        raise core.SymError("softmax on non-vector")
    ls = [SL.lift(v) for v in arr]
    tot = sl_sum(ls)
    out = _np.empty(arr.shape, dtype=object)
    for i, v in enumerate(ls):
        out[i] = (v - tot).exp()
    ST.events.append(("softmax", list(arr), list(out)))
    return out


def _elementwise(fn, a, *rest):
    if isinstance(a, _np.ndarray):
        out = _np.empty(a.shape, dtype=object)
        for idx in _np.ndindex(a.shape):
            out[idx] = fn(a[idx], *rest)
        return out
    return fn(a, *rest)


def _sign1(x):
    if isinstance(x, SR):
        return x.sign()
    if isinstance(x, Sym):
        raise core.SymError("sign of log-space value")
    return float(_np.sign(x))


def _exp1(x):
    if isinstance(x, Sym):
        return x.exp()
    return math.exp(x) if x != -math.inf else 0.0


def _log1(x):
    if isinstance(x, Sym):
        return x.log()
    if x == 0 or (ST.kappa_zero and x == 1e-100):
        return -math.inf          # Factor.log's +1e-100 regulariser is checked at 0
    return math.log(x)


def _logaddexp1(x, y):
    return sl_sum([SL.lift(x), SL.lift(y)])


class NPProxy(types.ModuleType):
    """stands in for `np` inside repo modules"""

    def __init__(self):
        super().__init__("numpy_proxy")
        self.__dict__["_real"] = _np

    def __getattr__(self, name):
        return getattr(_np, name)

    # object arrays from the start, so that in-place updates with symbolic operands are possible
    def zeros(self, shape, dtype=None, **kw):
        if dtype is not None and dtype is not float:
            return _np.zeros(shape, dtype=dtype, **kw)
        a = _np.empty(shape, dtype=object)
        a[...] = 0.0
        return a

    def ones(self, shape, dtype=None, **kw):
        if dtype is not None and dtype is not float:
            return _np.ones(shape, dtype=dtype, **kw)
        a = _np.empty(shape, dtype=object)
        a[...] = 1.0
        return a

    def sign(self, a):
        if has_sym(a):
            return _elementwise(_sign1, a)
        return _np.sign(a)

    def exp(self, a, out=None):
        if isinstance(a, Sym):
            return a.exp()
        if isinstance(a, _np.ndarray) and a.dtype == object:
            res = _elementwise(_exp1, a)
            if out is not None:
                out[...] = res
                return out
            return res
        return _np.exp(a, out=out) if out is not None else _np.exp(a)

    def log(self, a, out=None):
        if isinstance(a, (list, tuple)) and any(isinstance(x, Sym) for x in a):
            a = self.array(a)
        if isinstance(a, Sym):
            return a.log()
        if LOG_EXACT["on"] and isinstance(a, (int, float, _np.integer, _np.floating)) and not isinstance(a, bool) and a > 0 and out is None:
            # log of a concrete positive number is kept exact in log space (log(3.0) as the float 1.0986... would re-enter as a
            # rational whose exp is not 3)
            return SL(Fraction(float(a)).limit_denominator(10**12), {}, None, "p")
        if isinstance(a, _np.ndarray) and a.dtype == object:
            res = _elementwise(_log1, a)
            if out is not None:
                out[...] = res
                return out
            return res
        return _np.log(a, out=out) if out is not None else _np.log(a)

    def logaddexp(self, a, b):
        if has_sym(a) or has_sym(b) or (isinstance(a, _np.ndarray) and a.dtype == object):
            a, b = _np.broadcast_arrays(_obj(a), _obj(b))
            out = _np.empty(a.shape, dtype=object)
            for idx in _np.ndindex(a.shape):
                out[idx] = _logaddexp1(a[idx], b[idx])
            return out if out.ndim else out[()]
        return _np.logaddexp(a, b)

    def nan_to_num(self, a, **kw):
        if isinstance(a, Sym):
            return a
        if isinstance(a, _np.ndarray) and a.dtype == object:
            def f(x):
                if isinstance(x, Sym):
                    return x
                return float(_np.nan_to_num(x))
            return _elementwise(f, a)
        return _np.nan_to_num(a, **kw)

    def isscalar(self, x):
        return isinstance(x, Sym) or _np.isscalar(x)

    def histogramdd(self, sample, bins=10, weights=None, **kw):
        """definition of the weighted contingency table: cell = sum of the weights of the records in it (integer bin edges 0..n)"""
        if weights is None or not (isinstance(weights, _np.ndarray) and weights.dtype == object):
            return _np.histogramdd(sample, bins, weights=weights, **kw)
        shape = tuple(len(b) - 1 for b in bins)
        H = _np.empty(shape, dtype=object)
        H[...] = 0.0
        sample = _np.asarray(sample)
        for r in range(sample.shape[0]):
            idx = tuple(int(v) for v in sample[r])
            if all(0 <= i < n for i, n in zip(idx, shape)):
                H[idx] = H[idx] + weights[r]
        return H, [_np.asarray(list(b)) for b in bins]

    @property
    def random(self):
        return RNG["obj"] if RNG["obj"] is not None else _np.random

    @property
    def linalg(self):
        return _LINALG

    def sqrt(self, a):
        if isinstance(a, Sym):
            return a.sqrt()
        if isinstance(a, _np.ndarray) and a.dtype == object:
            return _elementwise(lambda x: x.sqrt() if isinstance(x, Sym) else math.sqrt(x), a)
        return _np.sqrt(a)

    def append(self, arr, values, axis=None):
        return _np.append(arr, values, axis=axis)

    def array(self, obj, *a, **kw):
        if isinstance(obj, (list, tuple)) and any(isinstance(x, Sym) for x in obj):
            out = _np.empty(len(obj), dtype=object)
            for i, x in enumerate(obj):
                out[i] = x
            return out
        if isinstance(obj, _np.ndarray) and obj.dtype == object and has_sym(obj):
            return obj.copy()
        return _np.array(obj, *a, **kw)

    def asarray(self, obj, *a, **kw):
        if isinstance(obj, _np.ndarray) and obj.dtype == object and has_sym(obj):
            return obj
        if isinstance(obj, (list, tuple)) and any(isinstance(x, Sym) for x in obj):
            return self.array(obj)
        return _np.asarray(obj, *a, **kw)

    def fromiter(self, it, dtype=float, count=-1, **kw):
        items = list(it)
        if count is not None and count >= 0:
            items = items[:count]
        if any(isinstance(x, Sym) for x in items):
            return self.array(items)
        return _np.fromiter(items, dtype=dtype, count=len(items))

    def abs(self, a):
        return _np.abs(a)

    def allclose(self, a, b, **kw):
        def conc(x):
            if isinstance(x, _np.ndarray) and x.dtype == object:
                if has_sym(x):
                    raise core.SymError("np.allclose on symbolic values")
                return _np.array([float(v) for v in x.flat]).reshape(x.shape)
            return x
        return _np.allclose(conc(a), conc(b), **kw)

    def nextafter(self, a, b):
        if ST.kappa_zero:
            return 0.0
        return _np.nextafter(a, b)


class _LinalgProxy:
    def __getattr__(self, name):
        return getattr(_np.linalg, name)

    def norm(self, x, ord=None, **kw):
        if isinstance(x, _np.ndarray) and x.dtype == object:
            if not has_sym(x):
                return _np.linalg.norm(_np.array([float(v) for v in x.flat]).reshape(x.shape), ord, **kw)
            flat = list(x.flat)
            if ord == 1:
                out = 0
                for v in flat:
                    out = out + abs(v)
                return out
            if ord in (None, 2):
                out = 0
                for v in flat:
                    out = out + v * v
                return out.sqrt() if isinstance(out, Sym) else math.sqrt(out)
            raise core.SymError("norm ord=%r on symbolic values" % (ord,))
        return _np.linalg.norm(x, ord, **kw)


_LINALG = _LinalgProxy()
class NPMechProxy(NPProxy):
    """for mechanisms/*.py: as NPProxy but zeros/ones stay ordinary float arrays (they feed scipy.sparse constructors there), and
    arrays built from symbolic scores are SymArrays (their .max() is an If-term, not a cascade of path forks)"""

    def array(self, obj, *a, **kw):
        out = NPProxy.array(self, obj, *a, **kw)
        if isinstance(out, _np.ndarray) and out.dtype == object:
            return out.view(core.SymArray)
        return out

    def append(self, arr, values, axis=None):
        out = _np.append(arr, values, axis=axis)
        if out.dtype == object:
            return out.view(core.SymArray)
        return out

    def zeros(self, shape, dtype=None, **kw):
        return _np.zeros(shape, **({"dtype": dtype} if dtype is not None else {}), **kw)

    def ones(self, shape, dtype=None, **kw):
        return _np.ones(shape, **({"dtype": dtype} if dtype is not None else {}), **kw)


RNG = {"obj": None}     # event-recording stand-in for numpy.random inside repo modules (set by the mechanism checks)
NP = NPProxy()
NPM = NPMechProxy()


class Recorder:
    """stands in for numpy.random / a prng: records every draw; outcomes are chosen by the harness.
    contract: samplers draw from the distribution whose parameters they are passed"""

    def __init__(self, choose=None, fresh=None):
        self.events = []
        self.choose = choose or (lambda ev: 0)
        self.fresh = fresh

    def choice(self, a, size=None, replace=True, p=None):
        ev = {"kind": "choice", "a": a, "size": size, "replace": replace, "p": p}
        self.events.append(ev)
        return self.choose(ev)

    def normal(self, loc=0.0, scale=1.0, size=None):
        ev = {"kind": "normal", "loc": loc, "scale": scale, "size": size}
        self.events.append(ev)
        return self._draw(ev)

    def laplace(self, loc=0.0, scale=1.0, size=None):
        ev = {"kind": "laplace", "loc": loc, "scale": scale, "size": size}
        self.events.append(ev)
        return self._draw(ev)

    def _draw(self, ev):
        n = ev["size"]
        k = len(self.events)
        if self.fresh is None:
            if n is None:
                return SR.var("z!%d" % k)
            n = int(n)
            out = _np.empty(n, dtype=object)
            for i in range(n):
                out[i] = SR.var("z!%d_%d" % (k, i))
            return out
        return self.fresh(ev, k)

    def rand(self, *a):
        raise core.SymError("rand() not modelled")

    def permutation(self, n):
        return _np.arange(n)

    def shuffle(self, x):
        return None


def sym_float(x=0.0):
    if isinstance(x, Sym):
        return x
    return builtins.float(x)


def sym_int(x=0, *a):
    if isinstance(x, Sym):
        raise core.SymError("int() of symbolic value")
    return builtins.int(x, *a)


# ----------------------------------------------------------------------------------------
# scipy.sparse with object operands -> dense fallback
# ----------------------------------------------------------------------------------------
_SPARSE_PATCHED = []


def patch_sparse():
    if _SPARSE_PATCHED:
        return
    import scipy.sparse as sp
    base = sp._base._spbase if hasattr(sp, "_base") else sp.spmatrix
    orig_matmul = base.__matmul__
    orig_dot = base.dot
    orig_mul_dispatch = getattr(base, "_matmul_dispatch", None)

    def _is_obj(o):
        return isinstance(o, _np.ndarray) and o.dtype == object

    def matmul(self, other):
        if _is_obj(other):
            return _dense_obj(self) @ other
        return orig_matmul(self, other)

    def dot(self, other):
        if _is_obj(other):
            return _dense_obj(self) @ other
        return orig_dot(self, other)

    base.__matmul__ = matmul
    base.dot = dot
    _SPARSE_PATCHED.append((base, orig_matmul, orig_dot))


def _dense_obj(M):
    d = M.toarray()
    out = _np.empty(d.shape, dtype=object)
    for idx in _np.ndindex(d.shape):
        v = d[idx]
        out[idx] = int(v) if float(v).is_integer() else float(v)
    return out


# ----------------------------------------------------------------------------------------
# loading the repo
# ----------------------------------------------------------------------------------------
_LOADED = {}


def repo_paths():
    return [os.path.join(REPO, "src"), REPO]


def load_mbi():
    """import mbi from the working tree (fresh process assumed) and return the package"""
    for p in reversed(repo_paths()):
        if p in sys.path:
            sys.path.remove(p)
        sys.path.insert(0, p)
    import warnings
    with warnings.catch_warnings():
        warnings.simplefilter("ignore")
        import mbi
    src = os.path.realpath(os.path.join(REPO, "src", "mbi"))
    if os.path.realpath(os.path.dirname(mbi.__file__)) != src:
        raise core.SymError("mbi was imported from %s, not from %s" % (mbi.__file__, src))
    return mbi


def load_mechanism_file(name):
    """load mechanisms/<name>.py (names with '+' included) as module mechanisms_<name>"""
    load_mbi()
    key = "mech:" + name
    if key in _LOADED:
        return _LOADED[key]
    path = os.path.join(REPO, "mechanisms", name + ".py")
    modname = "mechanisms." + name.replace("+", "_plus_")
    if "+" not in name:
        mod = importlib.import_module("mechanisms." + name)
    else:
        spec = importlib.util.spec_from_file_location(modname, path)
        mod = importlib.util.module_from_spec(spec)
        sys.modules[modname] = mod
        spec.loader.exec_module(mod)
    if os.path.realpath(mod.__file__) != os.path.realpath(path):
        raise core.SymError("%s loaded from %s" % (name, mod.__file__))
    _LOADED[key] = mod
    return mod


def fake_sigma(eps, delta):
    """float stand-in for autodp's calibration (classical Gaussian mechanism): only used by float replays"""
    return math.sqrt(2 * math.log(1.25 / float(delta))) / float(eps)


def install_fakes():
    """autodp / hdmm are not installed on this image: minimal stand-ins (only their *shape* is used)."""
    if "autodp" not in sys.modules:
        autodp = types.ModuleType("autodp")
        pc = types.ModuleType("autodp.privacy_calibrator")

        def ana_gaussian_mech(eps, delta, **kw):
            ST.events.append(("ana_gaussian_mech", eps, delta))
            if isinstance(eps, Sym) or isinstance(delta, Sym):
                s = SR.var("sigma_ana!%d" % (len(ST.events)), sg="p")
            else:
                s = fake_sigma(eps, delta)
            return {"sigma": s}
        pc.ana_gaussian_mech = ana_gaussian_mech
        autodp.privacy_calibrator = pc
        sys.modules["autodp"] = autodp
        sys.modules["autodp.privacy_calibrator"] = pc
    if "hdmm" not in sys.modules:
        import scipy.sparse as sp
        hdmm = types.ModuleType("hdmm")
        mat = types.ModuleType("hdmm.matrix")

        def Identity(n):
            return sp.eye(n, format="csr")
        mat.Identity = Identity
        hdmm.matrix = mat
        sys.modules["hdmm"] = hdmm
        sys.modules["hdmm.matrix"] = mat


_PATCHES = []   # (module, name, original, had, persist)


def shadow(mod, _persist=False, **names):
    """_persist: the shadow stays in force inside shims_off() too (loop cuts and silenced prints must hold for
    the symbolic and the float execution alike, otherwise they are different programs)"""
    for k, v in names.items():
        had = k in mod.__dict__
        _PATCHES.append((mod, k, mod.__dict__.get(k), had, _persist))
        mod.__dict__[k] = v


def unshadow_all():
    while _PATCHES:
        mod, k, old, had, _ = _PATCHES.pop()
        if had:
            mod.__dict__[k] = old
        else:
            mod.__dict__.pop(k, None)


class shims_off:
    """temporarily run the real, unshimmed code (fidelity tests, replays)"""

    def __enter__(self):
        self.saved = [p for p in _PATCHES if not p[4]]
        self.current = [(mod, k, mod.__dict__.get(k)) for mod, k, _, _, _ in self.saved]
        for mod, k, old, had, _ in reversed(self.saved):
            if had:
                mod.__dict__[k] = old
            else:
                mod.__dict__.pop(k, None)
        return self

    def __exit__(self, *a):
        for mod, k, cur in self.current:
            mod.__dict__[k] = cur
        return False


def install_mbi_shims():
    """shadow names in the mbi modules; returns the mbi package"""
    mbi = load_mbi()
    import mbi.factor, mbi.clique_vector, mbi.graphical_model, mbi.inference
    import mbi.factor_graph, mbi.region_graph, mbi.local_inference, mbi.public_inference
    patch_sparse()
    shadow(mbi.factor, np=NP, logsumexp=sym_logsumexp)
    shadow(mbi.clique_vector, np=NP)
    shadow(mbi.graphical_model, np=NP)
    shadow(mbi.inference, np=NP, float=sym_float)
    shadow(mbi.factor_graph, np=NP)
    shadow(mbi.region_graph, np=NP)
    shadow(mbi.local_inference, np=NP, float=sym_float)
    shadow(mbi.public_inference, np=NP, float=sym_float, logsumexp=sym_logsumexp)
    import mbi.dataset
    shadow(mbi.dataset, np=NP)
    return mbi


# ----------------------------------------------------------------------------------------
# bookkeeping for evidence: which real functions were driven
# ----------------------------------------------------------------------------------------
def fn_fingerprint(*fns):
    out = []
    for f in fns:
        try:
            src = inspect.getsource(f)
            file = os.path.relpath(inspect.getsourcefile(f), REPO)
            line = inspect.getsourcelines(f)[1]
        except (OSError, TypeError) as e:
            raise core.SymError("cannot read source of %r: %s" % (f, e))
        out.append({"function": getattr(f, "__qualname__", str(f)), "file": file, "line": line,
                    "sha256": hashlib.sha256(src.encode()).hexdigest()[:16]})
    return out


def need(obj, name):
    """fetch an attribute the harness is supposed to drive; missing => harness error (exit 3)"""
    if not hasattr(obj, name):
        raise core.SymError("expected %s.%s in the working tree; not found" % (getattr(obj, "__name__", obj), name))
    return getattr(obj, name)


# ----------------------------------------------------------------------------------------
# lsmr by contract: the exact minimum-norm least-squares solution, in rationals
# ----------------------------------------------------------------------------------------
def _fr_matrix(A):
    import scipy.sparse as sp
    from scipy.sparse.linalg import LinearOperator
    if sp.issparse(A):
        A = A.toarray()
    elif isinstance(A, LinearOperator):
        A = A @ _np.eye(A.shape[1])
    A = _np.asarray(A)
    return [[Fraction(float(A[i, j])).limit_denominator(10**9) for j in range(A.shape[1])] for i in range(A.shape[0])]


def _fr_mul(A, B):
    return [[sum(A[i][k] * B[k][j] for k in range(len(B))) for j in range(len(B[0]))] for i in range(len(A))]


def _fr_T(A):
    return [list(r) for r in zip(*A)] if A else []


def _fr_inv(A):
    n = len(A)
    M = [list(A[i]) + [Fraction(int(i == j)) for j in range(n)] for i in range(n)]
    for c in range(n):
        piv = next(r for r in range(c, n) if M[r][c] != 0)
        M[c], M[piv] = M[piv], M[c]
        pv = M[c][c]
        M[c] = [x / pv for x in M[c]]
        for r in range(n):
            if r != c and M[r][c] != 0:
                f = M[r][c]
                M[r] = [x - f * y for x, y in zip(M[r], M[c])]
    return [row[n:] for row in M]


def exact_pinv_solve(A, b):
    """minimum-norm least-squares solution of A v = b in exact rationals (full-rank factorisation A = B C)"""
    A = [list(r) for r in A]
    m, n = len(A), len(A[0])
    # reduced row echelon form -> pivot columns
    M = [list(r) for r in A]
    pivots, r = [], 0
    for c in range(n):
        piv = next((i for i in range(r, m) if M[i][c] != 0), None)
        if piv is None:
            continue
        M[r], M[piv] = M[piv], M[r]
        pv = M[r][c]
        M[r] = [x / pv for x in M[r]]
        for i in range(m):
            if i != r and M[i][c] != 0:
                f = M[i][c]
                M[i] = [x - f * y for x, y in zip(M[i], M[r])]
        pivots.append(c)
        r += 1
        if r == m:
            break
    if not pivots:
        return [Fraction(0)] * n
    B = [[A[i][c] for c in pivots] for i in range(m)]          # m x r
    C = [M[i] for i in range(len(pivots))]                      # r x n
    Bt, Ct = _fr_T(B), _fr_T(C)
    bcol = [[Fraction(x)] for x in b]
    t = _fr_mul(_fr_inv(_fr_mul(Bt, B)), _fr_mul(Bt, bcol))     # (B'B)^-1 B' b
    v = _fr_mul(Ct, _fr_mul(_fr_inv(_fr_mul(C, Ct)), t))        # C'(CC')^-1 ...
    return [row[0] for row in v]


def lsmr_by_contract(A, b, atol=0, btol=0, **kw):
    """stands in for scipy.sparse.linalg.lsmr(A, b, atol=0, btol=0): contract = exact minimum-norm least-squares solution"""
    Af = _fr_matrix(A)
    bf = [Fraction(float(x)).limit_denominator(10**9) for x in _np.asarray(b, dtype=object).flat]
    v = exact_pinv_solve(Af, bf)
    out = _np.empty(len(v), dtype=object)
    for i, x in enumerate(v):
        out[i] = x
    ST.events.append(("lsmr", len(Af), len(Af[0])))
    return (out, 1, 0, 0.0, 0.0, 0.0, 0.0, 0.0)


def eigsh_by_contract(A, k=1, **kw):
    """stands in for scipy.sparse.linalg.eigsh(A, 1): contract = the largest eigenvalue of the symmetric operator A, computed densely and
    deterministically (ARPACK starts from a random vector, so two calls differ in the last bits, which exact terms would expose)"""
    import scipy.sparse as sp
    from scipy.sparse.linalg import LinearOperator
    if sp.issparse(A):
        M = A.toarray()
    elif isinstance(A, LinearOperator):
        M = A @ _np.eye(A.shape[1])
    else:
        M = _np.asarray(A, dtype=float)
    w = _np.linalg.eigvalsh((M + M.T) / 2.0)
    lam = float(round(w[-1], 12))
    ST.events.append(("eigsh", M.shape[0]))
    return _np.array([lam]), None

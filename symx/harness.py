"""symx.harness -- common runner for the per-property checks.

A check module provides
    PROPERTY : 'Cxx'
    TECHNIQUE, ASSUMPTIONS (list[str]), BOUNDS (dict tier -> str)
    configs(tier, seed) -> list[dict]      (json-able; 'core': bool marks the set that must be decided)
    run_config(cfg) -> dict                (runs in a forked worker; see Result below)
    replay(cand) -> dict(reproduced=bool, detail=...)   (real, unshimmed code on floats)
    finding_key(cand) -> str               (stable identity used by known_findings.json)

Exit codes: 0 property held on everything explored (KNOWN-FINDING lines allowed);
            1 at least one reproduced violation that known_findings.json does not list;
            3 harness error / inconclusive core obligation / spurious counterexample (no verdict).
"""
import argparse
import hashlib
import json
import multiprocessing as mp
import os
import random
import sys
import time
import traceback

from . import core, solve, shims

VERIF = os.path.dirname(os.path.dirname(os.path.abspath(__file__)))


class Result:
    """accumulated by run_config"""

    def __init__(self, cfg):
        self.cfg = cfg
        self.obligations = 0
        self.discharged = 0
        self.unknown = []        # [{what, ...}]
        self.candidates = []     # [{kind, what, inputs..., }] sat models / exceptions to be replayed
        self.samples = []
        self.fidelity = 0        # symbolic outputs cross-checked against the real code in floats
        self.fidelity_fail = []
        self.functions = []
        self.notes = []
        self.paths = 0

    def ob(self, verdict, what, cand=None):
        """record one obligation outcome. verdict in unsat/sat/unknown"""
        self.obligations += 1
        if verdict == "unsat":
            self.discharged += 1
        elif verdict == "sat":
            c = dict(cand or {})
            c.setdefault("what", what)
            self.candidates.append(c)
        else:
            self.unknown.append({"what": what})

    def as_dict(self):
        return dict(vacuity=getattr(self, "vacuity", {}), cfg=self.cfg, obligations=self.obligations, discharged=self.discharged, unknown=self.unknown,
                    candidates=self.candidates, samples=self.samples[:3], fidelity=self.fidelity,
                    fidelity_fail=self.fidelity_fail, functions=self.functions, notes=self.notes,
                    paths=self.paths, stats=solve.STATS.as_dict())


def _worker(args):
    modname, cfg = args
    import importlib
    mod = importlib.import_module(modname)
    solve.STATS.__init__()
    core.ST.reset()
    t0 = time.time()
    import signal

    class _Timeout(BaseException):
        pass

    def _alarm(sig, frm):
        raise _Timeout()
    limit = int(cfg.get("timeout", os.environ.get("VERIF_CFG_TIMEOUT", "600")))
    signal.signal(signal.SIGALRM, _alarm)
    signal.alarm(limit)
    # a worker blocked inside a z3 C call never gets back to the interpreter, so the SIGALRM handler cannot run: a watchdog thread interrupts the
    # solver context a few seconds after the limit (and keeps doing so) until the configuration has returned
    import threading
    done = threading.Event()

    def _watchdog():
        if done.wait(limit + 5):
            return
        import z3
        while not done.wait(2):
            try:
                z3.main_ctx().interrupt()
            except Exception:
                pass
    threading.Thread(target=_watchdog, daemon=True).start()
    try:
        try:
            out = mod.run_config(cfg)
        finally:
            done.set()
        signal.alarm(0)
        d = out.as_dict() if isinstance(out, Result) else out
        d["wall_s"] = round(time.time() - t0, 3)
        d["error"] = None
        return d
    except _Timeout:
        return dict(cfg=cfg, error=None, obligations=1, discharged=0,
                    unknown=[{"what": "configuration exceeded its %ds time limit (inconclusive)" % limit}], candidates=[],
                    samples=[], fidelity=0, fidelity_fail=[], functions=[], notes=[], paths=0,
                    stats=solve.STATS.as_dict(), wall_s=round(time.time() - t0, 3))
    except BaseException as e:  # noqa  (engine-level failure of this config)
        signal.alarm(0)
        return dict(cfg=cfg, error="%s: %s" % (type(e).__name__, e), trace=traceback.format_exc()[-3000:],
                    obligations=0, discharged=0, unknown=[], candidates=[], samples=[], fidelity=0,
                    fidelity_fail=[], functions=[], notes=[], paths=0, stats=solve.STATS.as_dict(),
                    wall_s=round(time.time() - t0, 3))


def load_known():
    p = os.path.join(VERIF, "known_findings.json")
    if not os.path.exists(p):
        return []
    return json.load(open(p)).get("findings", [])


def main(mod):
    ap = argparse.ArgumentParser()
    ap.add_argument("--tier", default=os.environ.get("VERIF_TIER", "quick"), choices=["quick", "thorough"])
    ap.add_argument("--replay", default=None)
    ap.add_argument("--jobs", type=int, default=int(os.environ.get("VERIF_JOBS", "16")))
    ap.add_argument("--only", default=None, help="substring filter on config names (debugging)")
    a = ap.parse_args()
    seed = int(os.environ.get("VERIF_SEED", "0") or 0)
    pid = mod.PROPERTY
    if a.replay:
        cand = json.load(open(a.replay))
        r = mod.replay(cand["candidate"] if "candidate" in cand else cand)
        print(json.dumps(r, indent=1, default=str))
        sys.exit(1 if r.get("reproduced") else 0)

    t0 = time.time()
    cfgs = mod.configs(a.tier, seed)
    if a.only:
        cfgs = [c for c in cfgs if a.only in c.get("name", "")]
    modname = mod.__name__ if mod.__name__ != "__main__" else mod.__spec__.name if mod.__spec__ else None
    if modname is None or modname == "__main__":
        modname = "checks." + os.path.splitext(os.path.basename(mod.__file__))[0]
    try:
        pre = mod.prepare() if hasattr(mod, "prepare") else None
    except BaseException as e:
        print("HARNESS-ERROR property=%s prepare failed: %s" % (pid, e))
        traceback.print_exc()
        sys.exit(3)
    jobs = max(1, min(a.jobs, len(cfgs)))
    ctx = mp.get_context("fork")
    results = []
    # longest-first scheduling when the check gives a cost hint
    order = sorted(range(len(cfgs)), key=lambda i: -cfgs[i].get("cost", 1))
    with ctx.Pool(jobs, maxtasksperchild=8) as pool:
        for d in pool.imap_unordered(_worker, [(modname, cfgs[i]) for i in order], chunksize=1):
            results.append(d)
    finish(mod, a.tier, seed, cfgs, results, t0)


def finish(mod, tier, seed, cfgs, results, t0):
    pid = mod.PROPERTY
    known = [k for k in load_known() if k.get("property") == pid and k.get("status", "open") == "open"]
    stats = solve.Stats()
    tot_ob = tot_dis = fid = paths = 0
    errors, unknown_core, unknown_ext, spurious = [], [], [], []
    fidelity_fail = []
    violations, known_hits = [], {}
    functions = {}
    samples = []
    nontrivial = 0
    replays_done = 0
    max_replays = 12
    vac = {"sat": 0, "unsat": 0, "unknown": 0}
    for d in results:
        for k, v in (d.get("vacuity") or {}).items():
            vac[k] = vac.get(k, 0) + v
        tot_ob += d["obligations"]
        tot_dis += d["discharged"]
        fid += d["fidelity"]
        paths += max(d.get("paths", 0), 1 if d["obligations"] else 0)
        st = d["stats"]
        for k, v in st["queries"].items():
            stats.queries[k] = stats.queries.get(k, 0) + v
        stats.solver_s += st["solver_s"]
        stats.trivial += st["rewriter_normalised"]
        stats.paths += st["paths"]
        stats.bound_hits += st["bound_hits"]
        stats.decisions += st["decisions"]
        stats.branch_queries += st["branch_queries"]
        if d["obligations"] and (st["queries"]["unsat"] + st["queries"]["sat"] + st["rewriter_normalised"]) > 0:
            nontrivial += 1
        for f in d["functions"]:
            functions[(f["function"], f["file"])] = f
        if d["samples"] and len(samples) < 6:
            samples.append({"config": d["cfg"].get("name"), "sample": d["samples"][0]})
        core_cfg = d["cfg"].get("core", True)
        if d["error"]:
            errors.append((d["cfg"].get("name"), d["error"], d.get("trace", "")))
        for u in d["unknown"]:
            (unknown_core if core_cfg else unknown_ext).append((d["cfg"].get("name"), u["what"]))
        for ff in d["fidelity_fail"]:
            fidelity_fail.append((d["cfg"].get("name"), ff))
        # candidates: replay against the real code
        seen_keys = set()
        for c in d["candidates"]:
            c["config"] = d["cfg"]
            key = mod.finding_key(c)
            if key in seen_keys:
                continue
            seen_keys.add(key)
            if key in known_hits or any(v["key"] == key for v in violations):
                continue
            if replays_done >= max_replays:
                continue
            replays_done += 1
            try:
                r = mod.replay(c)
            except BaseException as e:
                r = {"reproduced": False, "detail": "replay raised %s: %s" % (type(e).__name__, e)}
            if r.get("reproduced"):
                kf = next((k for k in known if k["key"] == key), None)
                if kf is not None:
                    known_hits[key] = (kf, c, r)
                else:
                    violations.append({"key": key, "candidate": c, "replay": r})
            else:
                spurious.append((d["cfg"].get("name"), c.get("what"), r.get("detail")))

    wall = time.time() - t0
    exit_code = 0
    for key, (kf, c, r) in known_hits.items():
        print("KNOWN-FINDING: property=%s %s" % (pid, kf.get("what", key)))
    vio_paths = []
    for v in violations:
        os.makedirs(os.path.join(VERIF, "replays"), exist_ok=True)
        h = hashlib.sha256(json.dumps(v, sort_keys=True, default=str).encode()).hexdigest()[:10]
        p = os.path.join(VERIF, "replays", "%s-%s.json" % (pid, h))
        json.dump(v, open(p, "w"), indent=1, default=str)
        vio_paths.append(p)
        print("VIOLATION property=%s replay=%s" % (pid, p))
        print("  key=%s :: %s" % (v["key"], str(v["replay"].get("detail"))[:400]))
        exit_code = 1
    harness_problems = []
    if errors:
        harness_problems.append("engine errors in %d configs: %s" % (len(errors), errors[:3]))
    if unknown_core:
        harness_problems.append("inconclusive core obligations: %s" % unknown_core[:5])
    if spurious:
        harness_problems.append("counterexamples that did not replay (encoding artefacts): %s" % spurious[:5])
    if fidelity_fail:
        harness_problems.append("fidelity mismatch symbolic vs real: %s" % fidelity_fail[:5])
    if tot_ob == 0:
        harness_problems.append("no obligations were generated (vacuous run)")
    if harness_problems and exit_code == 0:
        exit_code = 3

    evidence = {
        "property_id": pid,
        "tier": tier,
        "seed": seed,
        "level": getattr(mod, "LEVEL", "model_checking"),
        "wall_s": round(wall, 2),
        "violations": len(violations),
        "assumptions": list(getattr(mod, "ASSUMPTIONS", [])) + ["shim: %s = %s" % kv for kv in shims.SHIM_CONTRACTS.items()
                                                              if kv[0] in getattr(mod, "SHIMS_USED", shims.SHIM_CONTRACTS)],
        "coverage": {
            "technique": getattr(mod, "TECHNIQUE", ""),
            "bounds": getattr(mod, "BOUNDS", {}).get(tier, ""),
            "outside_the_claim": getattr(mod, "OUTSIDE", ""),
            "evaluations": len(results),
            "distinct_nontrivial": nontrivial,
            "rule": "one evaluation = one configuration (shape/structure/schedule) whose *values* are all symbolic; "
                    "non-trivial = at least one obligation of that configuration had free variables and was decided by z3 (nlsat query, or its polynomial rewriter reducing the residue to 0); "
                    "configurations are distinct by construction (enumerated, not sampled with repetition)",
            "states": max(paths, 1),
            "transitions": max(stats.decisions + tot_ob, 1),
            "traces_validated_against_impl": fid,
            "explanation": "states = symbolic paths executed through the real code; transitions = branch decisions + obligations; "
                           "traces_validated = symbolic outputs re-evaluated at concrete points and compared with the unshimmed real code",
            "obligations": tot_ob,
            "discharged": tot_dis,
            "inconclusive_core": len(unknown_core),
            "inconclusive_extended": len(unknown_ext),
            "inconclusive_extended_list": unknown_ext[:20],
            "known_findings_hit": [k for k in known_hits],
            "solver": stats.as_dict(),
            "reachability_witnesses": {"paths_with_satisfiable_assumptions": vac["sat"], "vacuous_paths": vac["unsat"],
                                       "undecided_within_4s": vac["unknown"]},
            "functions_encoded": sorted(functions.values(), key=lambda f: (f["file"], f["line"])),
            "samples": samples or [{"note": "no samples"}],
            "configs": [c.get("name") for c in cfgs][:400],
            "harness_problems": harness_problems,
            "slowest_configs": sorted(((d.get("wall_s", 0), d["cfg"].get("name")) for d in results), reverse=True)[:8],
            "repo": shims.REPO,
        },
    }
    os.makedirs(os.path.join(VERIF, "evidence"), exist_ok=True)
    json.dump(evidence, open(os.path.join(VERIF, "evidence", "%s.json" % pid), "w"), indent=1, default=str)
    print("%s tier=%s configs=%d obligations=%d discharged=%d unknown(core/ext)=%d/%d known=%d violations=%d "
          "fidelity=%d solver=%.1fs wall=%.1fs exit=%d" % (pid, tier, len(results), tot_ob, tot_dis, len(unknown_core),
                                                           len(unknown_ext), len(known_hits), len(violations), fid,
                                                           stats.solver_s, wall, exit_code))
    print("  slowest: %s" % sorted(((d.get("wall_s", 0), d["cfg"].get("name")) for d in results), reverse=True)[:4])
    for hp in harness_problems:
        print("HARNESS-PROBLEM property=%s %s" % (pid, hp[:1500]))
    if errors:
        print(errors[0][2])
    sys.exit(exit_code)


def rng_for(cfg, seed=0):
    h = hashlib.sha256((json.dumps(cfg, sort_keys=True, default=str) + str(seed)).encode()).digest()
    return random.Random(int.from_bytes(h[:8], "big"))
